#!/bin/sh
# the repository's pinned test suite (BASELINE.json cmd), guard OFF
cd /repo && env -u HTML5LIB_VERIF /venv/bin/python -m pytest -ra -q -p no:cacheprovider --timeout=900 --continue-on-collection-errors "$@" 2>&1 | tail -3
