#!/bin/sh
# usage: tools/mutcheck.sh <patch.diff> <PROP> [tier] [runner opts]   -- apply a patch to /repo, run the check, undo the patch
PATCH=$(realpath "$1"); shift
git -C /repo diff --quiet || { echo "/repo not clean"; exit 9; }
git -C /repo apply "$PATCH" || { echo "patch does not apply"; exit 9; }
cd /verif && ./check "$@" --no-evidence; rc=$?
git -C /repo checkout -- . ; git -C /repo clean -fdq html5lib 2>/dev/null
echo "mutcheck rc=$rc"
exit $rc
