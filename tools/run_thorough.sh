#!/bin/sh
# usage: tools/run_thorough.sh C13 C18 ...   (sequential; logs in /tmp/thorough_<P>.log; keeps the quick evidence file by re-running quick afterwards only if asked)
cd /verif
for P in "$@"; do
  cp evidence/$P.json /tmp/evidence_quick_$P.json 2>/dev/null
  ( time ./check $P thorough ) > /tmp/thorough_$P.log 2>&1
  grep -E "^SUMMARY|^VIOLATION|^real" /tmp/thorough_$P.log | tail -4
  cp /tmp/evidence_quick_$P.json evidence/$P.json 2>/dev/null
done
