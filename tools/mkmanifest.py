#!/usr/bin/env python3
"""Regenerates /verif/MANIFEST.json from the table below (kept valid at all times)."""
import json, os
ROOT = os.path.dirname(os.path.dirname(os.path.abspath(__file__)))
ALL = ["C%02d" % i for i in range(1, 21)]

NOTE_COMMON = ("Trusted base: z3 5.1.0, CrossHair 0.0.110 symbolic models of str/int/bool/list and its LinearSet/SimpleDict (adapter plugin "
               "engine/chplugin.py only widens the `in` interceptor), CPython builtins, and the reference predicates in the harness module. "
               "Verdicts hold inside the stated bounds only; INCONCLUSIVE obligations are listed in the evidence and are never counted as discharged.")

CHECKS = {
 "C20": dict(
    technique="direct z3 queries over every BMP code point on the live illegal-name-character regexes (translated from the compiled pattern objects) against an expat oracle; bounded symbolic execution (CrossHair) of toXmlName/fromXmlName/coerce* with characters by symbolic index",
    text="(a) z3: for every BMP code point, in first and non-first position, the character classes of nonXmlNameFirstBMPRegexp / nonXmlNameBMPRegexp (read from the live objects) keep only characters expat accepts, replace no legal colon-free character, and the escape alphabet U/0-9/A-F is itself legal; same for the pubid class vs the XML PubidChar production. "
         "(b) CrossHair: toXmlName/coerceElement/coerceAttribute/fromXmlName on all names up to length 3 (quick) / 4 (thorough) over a 12-character class alphabet: result accepted by expat, legal names unchanged, round trip, injectivity (thorough); coerceComment on all Unicode strings up to length 5/7 with symbolic flags; coercePubid up to length 3.",
    note="expat is the XML-name oracle (XML 1.0 4th ed.); alphabet-to-all-characters step rests on (a) and on toXmlName using characters only through the two regexes; non-BMP outside the claim. " + NOTE_COMMON,
    design="§3 C20"),
 "C16": dict(
    technique="bounded symbolic execution (CrossHair/z3): strict vs non-strict runs of the real parser on catalogue contexts + one token chosen by symbolic index over the source-derived name list; tokenizer error sites on C02 pre-states with a symbolic Unicode continuation; conforming skeletons with symbolic text",
    text="(a) for each tree-construction context (every 3rd of 73 in quick, all in thorough; documents and fragments) and every start/end/attributed/self-closing tag over ~140 source-derived names plus 12 other tokens: the non-strict run's errors all have a code in E that formats with its variables and a position inside the input; the strict run raises ParseError and nothing else, exactly when errors were recorded, with the first error's message. "
         "(b) every ParseError token the tokenizer emits from each C02 catalogue pre-state on any continuation of <= 2/3 Unicode characters has a code in E whose template variables are supplied. (c) 14 conforming skeletons (incl. foreign content with mixed-case names and nested omitted end tags) x symbolic text record no error in strict mode; byte input whose late declaration restarts the parse (also beyond the first 10240-character chunk) records positions inside the input. (d) concrete lemma: E's templates format; all literal error sites in the AST use known codes and supply the template's variables.",
    note="Element names by symbolic index over a finite source-derived list (the parser compares names only with such constants); after the fork the run is concrete. Lemma (d) is not a solver result. " + NOTE_COMMON,
    design="§3 C16"),
 "C03": dict(
    technique="bounded symbolic execution (CrossHair/z3): the real parser on catalogue contexts + tokens chosen by symbolic index (both builders x namespacing, scripting symbolic), deep-nesting documents with symbolic depth/closer choice, numeric character references with an unbounded symbolic value",
    text="For every second (quick) / every (thorough) of 73 tree-construction contexts (documents and fragments in 23 containers) and every token out of 4 tag shapes x ~140 source-derived names + 13 other tokens [thorough: + a second tag over 24 names]: parse()/parseFragment() raise nothing with etree and dom, namespacing on/off, scripting on/off, and every document result has the skeleton doctype?/comments + one html with head then body|frameset and no stray text. "
         "Deep nesting: '<div>' + 0/1100/2200 copies of each of 20 element names + 7 closers parse without RecursionError. Numeric references: consumeNumberEntity never raises for any non-negative integer (unbounded). Tokenizer termination rides on C02's obligations (iteration guard).",
    note="Names/tokens by symbolic index over finite lists, run concretely after the fork; inputs outside 'context + <= 2 tokens' and byte inputs are outside the claim; noframes after frameset under html is a listed known finding (standard behaviour). " + NOTE_COMMON,
    design="§3 C03"),
 "C04": dict(
    technique="bounded symbolic execution (CrossHair/z3): the etree and dom node primitives in lock-step under a symbolic operation script; the real parser with every builder configuration on catalogue contexts + tokens chosen by symbolic index, abstract trees compared",
    text="(a) primitives: every script of <= 2 operations (4 nodes quick, 5 nodes thorough) out of appendChild, insertBefore, insertText(+before), reparentChildren, removeChild, attribute assignment, cloneNode with symbolic operands on a 5-node tree, respecting the call preconditions of the tree-construction code, leaves the ElementTree-backed and the minidom-backed trees equal (and hasContent equal) after every step. "
         "(b) parser level: for every second / every one of 73 contexts and each token (4 tag shapes x ~140 names + 13 others) [thorough, every second context: + a second start/end tag over 8 names] + 3 probes, the abstract trees of etree(fullTree), dom, each with namespacing on and off, are equal (HTML namespace normalised), and the etree root-element form equals the html subtree of the full tree.",
    note="R7 readers (norm_et/norm_dom) trusted; primitive-call preconditions (fresh target for reparentChildren, no text after a removed element) are assumptions derived from the call sites; lxml not installed. " + NOTE_COMMON,
    design="§3 C04"),
 "C11": dict(
    technique="bounded symbolic execution (CrossHair/z3): TreeWalker.text on fully symbolic Unicode text; both walkers + the lint filter over symbolically shaped trees (parent vector, node kinds, names/namespaces, attribute sets by symbolic index) built with the real builder node classes, compared with a recursive reference stream",
    text="text(): every Unicode string of <= 3/4 characters splits into at most SpaceCharacters, Characters, SpaceCharacters with the documented shape (solver-closed). Walkers: for EVERY tree shape with <= 3 nodes under a document (doctype + comment + root element), a fragment or a root element - 5 element name/namespace choices incl. a void name, the same name in SVG, no namespace and a colon name, 2 texts, comment; 6 attribute sets - "
         "started at the container or at ANY element of the tree, with namespacing on and off: the etree and dom walkers' streams equal the reference stream (balance, void elements as EmptyTag and never EndTag, names, text splitting, rebuilds the tree), the lint filter accepts them, and both walkers agree after merging character tokens.",
    note="Tree shapes bounded by 3 nodes (path forking over a finite shape space, run concretely after the fork); reference stream R7 trusted; lxml/genshi walkers not installed. " + NOTE_COMMON,
    design="§3 C11"),
 "C19": dict(
    technique="bounded symbolic execution (CrossHair/z3): real to_sax on the real walkers over symbolically shaped trees (shape, kinds, names, attribute sets by symbolic index), events compared with the reference stream",
    text="For every tree shape with <= 3 nodes (as C11; document / fragment / root element; etree and dom walker; 6 attribute sets incl. xlink:href, xmlns:xlink, xmlns, a colon name) the recorded SAX events have exactly one startDocument/endDocument pair, the prefix mappings of adjustForeignAttributes started before and ended after all content, "
         "and the element/character events equal the tree (comments and doctype omitted) with attributes' values and qualified names as derived from unadjustForeignAttributes.",
    note="Recorder handler; trees bounded by 3 nodes; reference derived independently from constants.adjustForeignAttributes. " + NOTE_COMMON,
    design="§3 C19"),
 "C08": dict(
    technique="bounded symbolic execution (CrossHair/z3) of the real HTMLSerializer.serialize with symbolic Unicode text / attribute values and symbolic options, output re-tokenised by the independent reference tokenizer R1 in the parser's tokenizer state; z3 regex-language inclusion on the live quoting regexes",
    text="For each of 16 element kinds (normal, RCDATA, RAWTEXT, script, noscript, foreign style/title/script ...) with Characters or SpaceCharacters of <= 2/3 arbitrary Unicode characters, and for start/empty tags with attributes (keys by index over plain / boolean / namespaced / hyphenated, values of <= 1/2 arbitrary characters), with every escaping, quoting, minimisation, solidus and sorting option symbolic: either serializer.errors is non-empty or the output, newline-normalised and re-tokenised by R1 in the state the standard's tree construction selects, yields exactly the given tokens. "
         "Reference-shaped attribute values (<= 2/4 fragments of &, lt, amp, ;, #, digits ...); the entity replacement of unencodable characters is self-delimiting in text and attribute context; comments and doctype identifiers producible by parsing (via R1 over a class alphabet). z3: the language of values left unquoted by _quoteAttributeSpec/_quoteAttributeLegacy (translated from the live patterns, unbounded strings) contains no whitespace, '>', quote, '=', '<' or backtick.",
    note="R1/R10 trusted; 8 listed known findings (raw text by bare name, plaintext, escape_rcdata in raw text, raw CR, boolean minimisation, namespace prefixes, unquoted value + solidus, quote in public id) are excluded by signature and their witnesses replayed; streams of more than one element and encoded output are outside the claim. " + NOTE_COMMON,
    design="§3 C08"),
 "C09": dict(
    technique="direct z3 queries generated from the live sanitizer regexes (regular-language emptiness on unbounded strings with alphabet compression; character-class coverage over every code point) + bounded symbolic execution (CrossHair/z3) of sanitize_token / allowed_token / sanitize_css with names, keys and text by symbolic index",
    text="z3: (1) no style string (unbounded) that survives the url()-removal regex and both gauntlet regexes (read from the AST of sanitize_css, compressed to 28 character classes) contains 'url' WS* '(' in any case; (2) the class stripped from URI values covers every C0 control and space and no scheme character, for every code point. "
         "CrossHair: element gate over every name of any allow-list entry + 16 dangerous names x 6 namespaces x tag types; attribute gate over all ordered selections of <= 3 keys from a 30-key alphabet with default and custom allow-lists; URI gate for every URI-valued attribute with values over a 16-character URL class alphabet (<= 3/4 chars) vs the browser scheme rule (R6), 11 concrete dangerous schemes with a hole at every position under the default lists incl. data: content types and under a custom protocol list {http}; 1..2/3 URI attributes with forbidden URLs on one element; CSS gate over an 18-character CSS alphabet (<= 3/4 chars) x 4 heads.",
    note="R6 browser scheme / data-URL MIME rules are my transcription of WHATWG URL / fetch; urlsplit's lru_cache unwrapped; all-Unicode closure only through the two z3 queries. " + NOTE_COMMON,
    design="§3 C09"),
 "C15": dict(
    technique="bounded symbolic execution (CrossHair/z3): the real meta-charset filter on head layouts composed by symbolic index; the real encoded serialization + re-parse of the bytes on skeleton x text x encoding x option choices by symbolic index (run concretely after the fork)",
    text="Filter: for every head of 0..3 items out of 12 (meta charset, content-type pragmas in both attribute orders and letter cases, other metas, link, title, whitespace, comment, namespaced charset) or an empty head, and 7 encodings: the output head contains a meta declaring the encoding, no declaration of another encoding survives, exactly one meta is injected iff there was none, all other tokens are unchanged and in order, injected tokens are complete walker tokens. "
         "Bytes: 5 skeletons (incl. a declaration beyond the 1024-byte prescan window) x 7 text probes x 6 ASCII-compatible encodings x optional-tag omission x walker: render(encoding) succeeds, the parser with no hints reports that encoding and builds the same tree as from the unencoded serialization.",
    note="NOT APPLICABLE dimension: str.encode / codecs / decoders are C code - the byte level is executed on representatives, not closed symbolically over characters or encodings. Known findings: sanitize=True escapes the injected meta; utf-16 output. " + NOTE_COMMON,
    design="§3 C15"),
 "C06": dict(
    technique="bounded symbolic execution (CrossHair/z3): the real meta prescan against an independent transcription of the standard's prescan (R3) on byte strings composed by symbolic index; the real determineEncoding / changeEncoding / parser on BOM x argument x declaration assignments chosen by symbolic index",
    text="Prescan: for every sequence of <= 2 (quick) / 3 (thorough) well-formed markup units out of 30 (comments hiding a meta, quoted '>' and meta-looking attribute values, end tags, doctype, PI, text, every declaration form / quote style / attribute order / label kind incl. UTF-16 and invalid labels) joined by each kind of whitespace, every whitespace kind at every gap of 4 meta skeletons, and a declaration at every offset 1000..1030: detectEncodingMeta equals R3. "
         "Precedence: BOM (6 kinds) x override/transport/parent/likely/default in {absent, valid, invalid, UTF-16 label} x 4 in-window declarations x 4 late declarations (charset, pragma, UTF-16): the stream's (encoding, confidence), the parser's documentEncoding after a possible restart, and tree == tree of the bytes decoded with the reported encoding follow the documented order; a certain encoding is never changed.",
    note="Bytes cannot be symbolic under CrossHair: inputs are chosen by symbolic index and run concretely (data-independence from representatives to all byte values assumed). NOT APPLICABLE dimension: decoding (C codecs). Malformed-markup prescan deviations are one listed known finding (9 minimal inputs). chardet absent. " + NOTE_COMMON,
    design="§3 C06"),
 "C12": dict(
    technique="bounded symbolic execution (CrossHair/z3): reuse histories (first use, kind of abort, second use) chosen by symbolic index, second use on the shared object compared with a brand-new object; real handler caches live",
    text="For every sixth (quick) / every (thorough) of 75 first-use contexts (documents and fragments) x 39 state-leaving tokens (incl. 260 distinct unknown start / end tags that overflow the per-phase handler caches) x {completed, strict-mode ParseError abort, input source failing at the 2nd / 3rd read} x 28 state-sensitive second documents / fragments x {etree, dom}: "
         "tree and error list of the second parse on the reused HTMLParser equal those of a new parser. The module-level parse()/parseFragment() called re-entrantly from an input source's read() (28 x 28 documents). HTMLSerializer: 7 x 7 documents, first serialize() abandoned after 0..12 chunks or aborted by a strict SerializeError, then render() equals a new serializer's (output and errors).",
    note="NOT APPLICABLE dimension: thread interleavings (no scheduler model in CrossHair; nothing claimed about concurrency). Abort points are the first recorded error and source failures after 1 / 2 chunks; histories are length 2. " + NOTE_COMMON,
    design="§3 C12"),
 "C10": dict(
    technique="bounded symbolic execution (CrossHair/z3): the real parse -> sanitize -> serialize -> re-parse pipeline on inputs composed by symbolic index from mutation-XSS shaped pieces with symbolic options, re-parsed tree checked against the sanitizer's allow-lists; composition with C09 and C08",
    text="For every input composed of a fragment container, two context openers (32: foreign content, integration points, raw-text / RCDATA elements, noscript, tables, select, template, plaintext ...; quick: 32 x 3, thorough: 32 x 8 in 2 containers) and one of 53 payloads (doubly-encoded references in unquoted values, several forbidden URLs on one element, attribute-value breakouts of raw-text elements, comments, CDATA, foreign-content breakouts, obfuscated javascript: URLs, backticks, NUL ...), with optional-tag omission, quoting mode, scripting of both parses and the re-parse mode (same container / div / document) symbolic: "
         "every element, attribute, URL scheme (browser rule R6), data: content type and style value of the RE-PARSED tree is on the sanitizer's allow-lists and no comment reappears. Plus the concrete lemma that no allow-listed element is written raw but parsed as data or vice versa.",
    note="Inputs are instances of the piece grammar only; two listed known findings: namespace confusion after an escaped integration point (the single problem class ignored) and a genuine mutation-XSS class - an HTML element placed directly inside foreign content by the first parse breaks out on re-parse (inputs whose first parse has that shape are skipped, witness replayed). " + NOTE_COMMON,
    design="§3 C10"),
 "C07": dict(
    technique="bounded symbolic execution (CrossHair/z3): conforming documents composed by symbolic index from a grammar of the HTML content model, serializer options symbolic, parse -> walk -> serialize -> parse compared as abstract trees; composition with C08 / C11 / C04 / C13",
    text="For each of 22 parent contexts (flow containers, a, ins, blockquote, li, td, p, heading, button, table / tbody / tr / colgroup, select / optgroup, ruby, dl, ul, svg, video, details) every ordered pair of the context's conforming children (30 flow items incl. p, lists, tables, dialog, pre, headings, script, style, void elements, forms; table parts; options; ...) with 4 separators, 4 tails (quick: 1 head, thorough: 4 heads) and both walkers: with optional tags omitted the re-parsed tree equals the original (102 944 documents in the quick tier). "
         "Options: adjacent child pairs x every combination of optional-tag omission, quoting mode, quote char, boolean minimisation, trailing solidus (+space), escape_lt_in_attrs and attribute sorting.",
    note="Weakest claim of the set: documents are instances of the grammar only; arbitrary text / attribute values are C08's symbolic obligations, walkers C11, builders C04, filter predicates C13. " + NOTE_COMMON,
    design="§3 C07"),
 "C01": dict(
    technique="bounded symbolic execution (CrossHair/z3) of tree-construction KERNELS against few-line references written from the standard: scope tests, implied end tags, fragment insertion-mode reset, integration points, quirks-mode facts, Noah's-ark / reconstruction of active formatting elements; inputs by symbolic index",
    text="KERNEL OBLIGATIONS ONLY - whole-algorithm equivalence is not claimed. Decided: the adoption agency's outer-loop bound (k nested blocks: 'y' leaves the formatting element iff k <= 7), the in-table-text whitespace rule on FULLY SYMBOLIC text (any 1-2 Unicode characters through the real tokenizer and parser), elementInScope for 5 scope kinds x 5/10 targets on every stack of depth <= 2 over a 17-element class alphabet (thorough: depth <= 3 over its first 12 elements) (incl. same local names in foreign namespaces); generateImpliedEndTags on stacks of depth <= 2/3 x every exclusion; resetInsertionMode for 25 fragment contexts; isHTMLIntegrationPoint / isMathMLTextIntegrationPoint for 16 elements x 9 encoding values; the quirks-mode decision (and the p/table nesting it controls) for 29 doctypes x keyword case; the element chain reconstructed after '<p>' + <= 4 formatting start tags + 'x</p>y' against the Noah's-ark rule. "
         "The rest of the algorithm is exercised (not compared with the standard) by C03 totality / skeleton, C04 builder agreement, C16 strictness, C07 round trip, C12 reuse.",
    note="R4 references are my transcriptions of the 2020 standard; the quirks reference is 29 facts, not the full identifier table; one listed known finding covers the differences from revisions after html5lib's model (template, rb/rtc, td/th/head fragment reset, name-only implied end tags). NOT APPLICABLE in full: equality with the WHATWG algorithm on all inputs (no independent model offline). " + NOTE_COMMON,
    design="§3 C01"),
 "C02": dict(
    technique="bounded symbolic execution (CrossHair/z3) of the real tokenizer state methods from catalogue pre-states on a symbolic continuation of arbitrary Unicode characters, differentially against an independent transcription of the WHATWG tokenizer (R1)",
    text="For every state method of the live HTMLTokenizer class (catalogue rebuilt from /repo at check time: 119 pre-states over 7 configurations = 5 start states x last start tag x CDATA allowed/not) the real tokenizer is run from that pre-state on EVERY string of <= 2 Unicode characters (thorough: <= 3 from the pre-states of the data-state configuration, two prefixes per state) followed by end of input, "
         "and the emitted tokens (parse errors dropped, character tokens merged) are compared with R1. Character references: the unbounded-integer and leading-zero obligations of C14 are re-run here. Each obligation is closed over all code points by the solver (NUL, non-BMP, every delimiter class), which covers every state x next-character decision incl. EOF in every state, look-ahead (DOCTYPE/PUBLIC/SYSTEM/--/[CDATA[) and the character-reference entry points.",
    note="R1/R10 references trusted (validated on 5.2 M concrete inputs); pre-states are those the catalogue prefixes build (pending token contents concrete), continuation bounded by K; CDATA NUL relocation is a listed known finding; attributeMap replaced by an equivalent linear-scan map. " + NOTE_COMMON,
    design="§3 C02"),
 "C05": dict(
    technique="bounded symbolic execution (CrossHair/z3) of the real HTMLUnicodeInputStream over a source with symbolic read sizes and chunk size, against an ideal-stream reference; BufferedStream with symbolic read/seek script",
    text="(i) for every Unicode text of <= 3 (quick) / 4 (thorough) characters, every segmentation into three symbolic read sizes and every internal chunk size 1..3, char() delivers exactly the newline-normalised text (solver-closed over all code points: CR, LF, surrogates, NUL ...); "
         "(ii) with the real position/error bookkeeping, for text over a 6-class alphabet: scripts of reads, 0..2 look-ahead push-backs, one charsUntil (2 sets x opposite) and read-to-end give the reference characters, positions after every step and the segmentation-independent invalid-code-point count; (iii) BufferedStream read/seek/tell vs a byte-string reference.",
    note="NOT APPLICABLE dimension: bytes/byte streams in any encoding (decoding is C codecs; CrossHair cannot execute it symbolically) - only BufferedStream is covered. Tree-level independence follows by composition with C02 (tokenizer steps run on such chunks). Known finding: column shift after a push-back across a chunk start. " + NOTE_COMMON,
    design="§3 C05"),
 "C14": dict(
    technique="bounded symbolic execution (CrossHair/z3) of the real consumeNumberEntity/consumeEntity/trie/htmlentityreplace_errors against an independent reference over Python's html.entities tables; numeric value closed for an UNBOUNDED symbolic integer; z3 query on the replacement table",
    text="Numeric references: consumeNumberEntity is closed for every non-negative integer value (unbounded symbolic n via a stub of the digit parser) and every terminator character; the unstubbed digit path for <= 2/3 class digits, 0..12/40 leading zeros, all five contexts. "
         "Named references: for all legacy names + every 21st (quick) / all 2231 names (thorough), followed by every character that continues towards a longer name and 15 class representatives incl. EOF, in data, RCDATA and the three attribute contexts, the real entry points are compared with the standard's longest-match + attribute-exception rule (R10). "
         "Arbitrary strings of <= 1 Unicode character after '&' fully symbolic. Tables: entities == html.entities.html5; replacement table vs the standard for every value (z3). Reverse map: htmlentityreplace_errors output decodes back (R10) over a class alphabet.",
    note="R10 reference and Python's stdlib tables trusted; tails of named references are class representatives (data-independence of consumeEntity w.r.t. characters it only compares with asciiLetters/digits/'=' is assumed); C1-control numeric references are a listed known finding. " + NOTE_COMMON,
    design="§3 C14"),
 "C18": dict(
    technique="bounded symbolic execution of the real alphabetical-attributes filter (CrossHair/z3): attribute keys by symbolic index over a collision alphabet, values/types unbounded symbolic strings; z3 injectivity lemma on the sort key",
    text="Bounded model checking of alphabeticalattributes.Filter.__iter__ and _attr_key: for every ordered selection of 0..3 distinct keys from a 10-key alphabet that contains the None/''/namespace collision shapes, with unbounded symbolic values, "
         "the output has exactly the input attributes (by identity), ordered by (namespace or '', name), independent of insertion order; other token types (unbounded symbolic type) pass through by identity. "
         "_attr_key equals the documented key for unbounded strings; injectivity of that key is a direct z3 query on unbounded strings.",
    note="Key alphabet instead of arbitrary names (symbolic dict keys are hashed); sorted()/OrderedDict trusted. " + NOTE_COMMON,
    design="§3 C18"),
 "C17": dict(
    technique="bounded symbolic execution of the real whitespace filter (CrossHair/z3) against a stack-based reference; direct z3 query on the live SPACES_REGEX character class",
    text="Bounded model checking of whitespace.Filter.__iter__ and collapse_spaces: every stream of <= 2 (quick) / 3 (thorough) tokens with unbounded symbolic type and element name and text of <= 2 arbitrary Unicode characters "
         "is compared with an independent explicit-stack reference (R8), plus idempotence and a nesting-depth step inside every preserve element; the regex class is decided for all code points directly in z3 from the live pattern.",
    note="R8 reference and the walker well-nestedness contract are trusted; longer streams/text are outside the bound. " + NOTE_COMMON,
    design="§3 C17"),
 "C13": dict(
    technique="bounded symbolic execution of the real filter methods (CrossHair/z3) with unbounded symbolic tag names and token types; counterexamples replayed concretely",
    text="Bounded model checking of optionaltags.Filter: is_optional_start/is_optional_end are executed symbolically with UNBOUNDED string names/types for tag, previous and next token and "
         "checked against (b) the 5+18 optional-tag name lists and (c) the standard's position rules (R5) over the window; slider and __iter__ are closed for streams up to 3 (quick) / 4 (thorough) tokens with "
         "arbitrary predicate answers, so the per-window result lifts to streams of any length. Solver verdict = Confirmed over all paths; counterexamples are replayed on /repo before being reported.",
    note="R5 position rules are my transcription of the standard (permissive union of revisions). Parse-equivalence clause is decided under C07. " + NOTE_COMMON,
    design="§3 C13"),
}

NOT_BUILT = "check not built yet in this round (see DESIGN.md §6 build order)"
NA = {}

def main():
    checks = []
    for pid in ALL:
        if pid in CHECKS:
            c = CHECKS[pid]
            checks.append({
                "property_id": pid,
                "quick_cmd": "./check %s quick" % pid,
                "thorough_cmd": "./check %s thorough" % pid,
                "evidence_file": "/verif/evidence/%s.json" % pid,
                "replay_cmd_template": "./check --replay {path}",
                "engine": "crosshair+z3",
                "level_claimed": {"category": "model_checking", "text": c["text"], "design_ref": c["design"]},
                "level_note": c["note"],
                "technique": c["technique"],
            })
    na = [{"property_id": p, "reason": NA.get(p, NOT_BUILT)} for p in ALL if p not in CHECKS]
    m = {
        "version": 1,
        "setup_cmd": "sh engine/setup.sh && ./check --selftest",
        "hooks": {"guard": "HTML5LIB_VERIF", "enable": "no source hooks are needed: checks import /repo's working tree directly (env HTML5LIB_VERIF=1 is set by the runner but nothing in /repo reads it)",
                  "baseline_off_cmd": "cd /repo && env -u HTML5LIB_VERIF /venv/bin/python -m pytest -ra -q -p no:cacheprovider --timeout=900 --continue-on-collection-errors",
                  "source_commits": [], "add_only": True},
        "engines": [
            {"name": "crosshair+z3", "path": "engine/", "serves_properties": sorted(CHECKS),
             "kind_free_text": "E1: CrossHair symbolic execution of the real html5lib functions imported from /repo's working tree (one obligation per worker process, reachability twin per obligation, concrete replay of every counterexample); "
                               "E2: direct z3 encodings generated at check time from the live regex/table objects of /repo"}],
        "checks": checks,
        "notes": "Exit codes: 0 nothing violated among everything decided; 1 VIOLATION (replayed on the real code); 3 harness error (vacuous obligation or non-reproducing counterexample). "
                 "Known findings and repaired defects: /verif/known_findings.json. fix: commits in /repo: see known_findings.json 'fixed' entries.",
        "not_applicable": na,
    }
    with open(os.path.join(ROOT, "MANIFEST.json"), "w") as f:
        json.dump(m, f, indent=1)
    print("MANIFEST.json: %d checks, %d not_applicable" % (len(checks), len(na)))

if __name__ == "__main__":
    main()
