#!/bin/sh
# usage: tools/confirm_seed.sh <srcdir with patch.diff demo.py meta.json> <seed-id>
# Confirms, in a fresh scratch worktree of /repo HEAD: demo passes on the clean tree; with the patch the pinned suite still
# passes (972) and the demo fails.  On success stores the seed under /verif/seeded/<seed-id>/ with a confirmation record.
SRC=$(realpath "$1"); ID=$2
WT=/tmp/confirm_wt_$$
git -C /repo worktree add -q --detach $WT HEAD || exit 9
cleanup() { git -C /repo worktree remove --force $WT; }
cd $WT
mkdir -p _mut/x && cp $SRC/demo.py _mut/x/demo.py
/venv/bin/python _mut/x/demo.py >/dev/null 2>&1; CLEAN=$?
if ! git apply $SRC/patch.diff 2>/dev/null; then
  git apply --3way $SRC/patch.diff 2>/dev/null || { echo "PATCH DOES NOT APPLY to current HEAD"; cleanup; exit 2; }
fi
SUITE=$(/venv/bin/python -m pytest -q -p no:cacheprovider --timeout=900 2>&1 | grep -E "passed|failed|error" | tail -1)
/venv/bin/python _mut/x/demo.py > /tmp/demo_out_$$ 2>&1; MUT=$?
git diff -- html5lib > /tmp/patch_$$
cd /verif
HEAD=$(git -C /repo rev-parse --short HEAD)
echo "clean_demo_rc=$CLEAN mutated_demo_rc=$MUT suite='$SUITE'"
cleanup
case "$SUITE" in *"972 passed"*) ;; *) echo "SUITE NOT GREEN"; exit 3;; esac
[ $CLEAN -eq 0 ] && [ $MUT -ne 0 ] || { echo "DEMO DOES NOT DISCRIMINATE"; exit 4; }
mkdir -p /verif/seeded/$ID && cp /tmp/patch_$$ /verif/seeded/$ID/patch.diff && cp $SRC/demo.py /verif/seeded/$ID/demo.py
python3 - "$SRC/meta.json" "/verif/seeded/$ID/meta.json" "$HEAD" "$SUITE" "$CLEAN" "$MUT" <<'PY'
import json,sys
m=json.load(open(sys.argv[1]))
m["confirmed"]={"repo_head":sys.argv[3],"suite_with_patch":sys.argv[4],"demo_rc_clean":int(sys.argv[5]),"demo_rc_patched":int(sys.argv[6]),
 "ran":"fresh scratch worktree of /repo HEAD: demo.py on clean tree; git apply patch.diff; pytest (pinned suite); demo.py again (tools/confirm_seed.sh)"}
m.setdefault("origin","independent sub-agent given only the property text and a scratch worktree")
json.dump(m,open(sys.argv[2],"w"),indent=1)
PY
rm -f /tmp/patch_$$ /tmp/demo_out_$$
echo "stored /verif/seeded/$ID"
