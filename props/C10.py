from engine.runner import Ob
ASSUMPTIONS = [
    "inputs are composed from 10 fragment containers x 34 context openers x 34 context openers x 53 mutation-XSS shaped payloads (raw-text / RCDATA / foreign content / integration points / tables / select / noscript / comments / attribute-value breakouts / obfuscated schemes / backticks / NUL), by symbolic index; quote mode, optional-tag omission, scripting of both parses, re-parse mode (same container, div, document) and walker are symbolic; run concretely after the fork",
    "safety predicate = the sanitizer's default allow-lists applied to the re-parsed DOM (elements, attributes, URI schemes by the browser rule R6, data: content types, url() in style, no comments); implied html/head/body are accepted in document mode",
    "composition with C09 (filter output) and C08 (lexical faithfulness); context agreement over the whole allow-list is a concrete lemma (finite table)",
]
OUTSIDE = ["inputs that are not an instance of container x opener x opener x payload; custom allow-lists; serializer options other than quoting / omission"]

def obligations(tier):
    from harness import C10
    q = tier == "quick"
    T = 400 if q else 2400
    obs = [Ob("C10.context-agreement", "z3", "harness.C10:context_agreement", 60, bounds="every allow-listed element x scripting on/off (concrete lemma)", replay="harness.C10:replay_context",
              encodes=["html5lib/serializer.py:HTMLSerializer.serialize (raw-text decision)", "html5lib/filters/sanitizer.py:allowed_elements", "html5lib/html5parser.py:parseRCDataRawtext / startTagNoscript"])]
    for o1 in range(C10.NO):
        cis = [0] if q else [0, 2]
        for ci in cis:
            obs.append(Ob("C10.roundtrip/open%02d/%s" % (o1, C10.CONTAINERS[ci]), "crosshair", "harness.C10:roundtrip", T, param={"o1": o1, "ci": ci, "o2max": 3 if q else 8, "scr1": False if q else None, "wdom": True, "skipmode": 1 if q else 9},
                          bounds="container %r, first opener %r x %d second openers x 53 payloads x omit x {legacy, always} quoting x first-parse scripting %s x re-parse scripting x %d re-parse modes; dom walker" % (C10.CONTAINERS[ci], C10.OPEN[o1], 3 if q else 8, "off" if q else "off/on", 2 if q else 3),
                          encodes=["html5lib/html5parser.py:HTMLParser.parseFragment", "html5lib/filters/sanitizer.py:Filter.*", "html5lib/serializer.py:HTMLSerializer.serialize", "html5lib/treewalkers/*", "html5lib/_tokenizer.py"]))
    return obs
