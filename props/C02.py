from engine.runner import Ob
TOK = "html5lib/_tokenizer.py:HTMLTokenizer."
ASSUMPTIONS = [
    "R1 (refs/r1_tokenizer.py + refs/r10_charref.py): the standard's tokenizer state machine written independently of html5lib and validated on 5.2 M concrete inputs (refs/README.md)",
    "pre-states are reached by concrete catalogue prefixes (rebuilt from the live tokenizer at check time, <= 3 per resting state and configuration); the symbolic continuation is loaded as the next stream chunk (chunk-boundary independence is C05)",
    "_tokenizer.attributeMap (dict) replaced by an equivalent linear-scan map (hashing a symbolic attribute name realises it); equivalence self-tested on import",
    "real HTMLUnicodeInputStream pre-loaded; _position stubbed and reportCharacterErrors off (neither influences tokens); input already newline-normalised (no CR; C05 decides normalisation)",
    "stub parser object supplying only tree.openElements[-1].namespace (CDATA allowed or not)",
    "compared: token sequence with parse errors dropped and adjacent character tokens merged, plus end of file (exactly the comparison the property defines)",
]
OUTSIDE = ["continuations longer than K characters after each catalogue pre-state (K = 2 quick, 3 thorough); pre-states whose pending token differs from what the catalogue prefixes build (longer names, more attributes)",
           "last-start-tag names other than title/xmp/script in the RCDATA/RAWTEXT/script configurations"]

def obligations(tier):
    from harness import C02
    q = tier == "quick"
    cat = C02.catalogue()
    K = 2 if q else 3
    T = 240 if q else 1800
    obs = [Ob("C02.states.covered", "z3", "harness.C02:all_states_covered", 60, replay="harness.C02:replay_state_covered", bounds="every state method of the live HTMLTokenizer class rests in / is passed through by some catalogue prefix", encodes=[TOK + m for m in C02.state_methods()][:5])]
    # character references are part of the tokenizer (anchors: consumeEntity / consumeNumberEntity); decided in depth under C14, re-run here
    obs.append(Ob("C02.charref.numeric-value", "crosshair", "harness.C14:numeric_value", 600, bounds="numeric reference value: UNBOUNDED integer; any terminator", encodes=[TOK + "consumeNumberEntity"]))
    for ctx in range(5):
        obs.append(Ob("C02.charref.leading-zeros/ctx%d" % ctx, "crosshair", "harness.C14:numeric_leading_zeros", T, param={"ctx": ctx, "zmax": 12 if q else 40}, bounds="0..%d leading zeros + class digit + '1' + optional ';' in context %d" % (12 if q else 40, ctx), encodes=[TOK + "consumeNumberEntity", TOK + "consumeEntity"]))
    for (ci, state), prefixes in sorted(cat.items()):
        use = prefixes[:1] if (q or ci != 0) else prefixes[:2]
        for n, p in enumerate(use):
            cfg = C02.CONFIGS[ci]
            kk = K if (q or ci == 0) else 2       # thorough: 3 characters from the data-state configuration's pre-states, 2 elsewhere (sized by wall time)
            k = kk - 1 if state in ("entityDataState", "characterReferenceInRcdata") else kk     # '&' + K characters through the entity trie: decided under C14
            obs.append(Ob("C02.step/%s/cfg%d/%d" % (state, ci, n), "crosshair", "harness.C02:step", T, param={"k": k, "cfg": ci, "prefix": p},
                          bounds="pre-state: %s after %r (start %s, last start tag %r, CDATA %s); continuation: any string of <= %d Unicode characters, then end of input" % (state, p, cfg[1], cfg[2], "allowed" if cfg[3] else "not allowed", k),
                          encodes=[TOK + state, TOK + "emitCurrentToken", TOK + "consumeEntity", "html5lib/_inputstream.py:HTMLUnicodeInputStream.charsUntil"]))
    return obs
