from engine.runner import Ob
ASSUMPTIONS = [
    "documents = catalogue context (text prefix or fragment container) + one token (every start/end/attributed/self-closing tag over the source-derived names, or one of 13 other tokens incl. nothing) [+ a second start/end tag over a 24-name subset in the thorough tier]; choices by symbolic index, run concretely after the fork on BOTH built-in builders x namespacing on/off; scripting symbolic",
    "tokenizer totality / termination rides on the C02 obligations (every state x continuation, iteration guard) and on C14.numeric.value (unbounded integer), which is re-run here as C03.charref.total",
    "bytes input: only through C06's obligations (prescan / precedence); decoding is C code",
]
OUTSIDE = ["inputs that are not context + <= 2 tokens; nesting depth other than 0 / 1100 / 2200 in the deep-nesting obligations; wall-clock bounds"]
SECOND = ["table", "tr", "td", "select", "p", "b", "a", "li", "body", "html", "head", "frameset", "svg", "math", "title", "script", "form", "button", "caption", "colgroup", "option", "nobr", "h1", "zz"]

def obligations(tier):
    from harness import parsecommon as pc, C03
    q = tier == "quick"
    T = 300 if q else 2400
    obs = [Ob("C03.charref.total", "crosshair", "harness.C14:numeric_value", 600, bounds="numeric character reference value: UNBOUNDED integer; no exception", encodes=["html5lib/_tokenizer.py:HTMLTokenizer.consumeNumberEntity"])]
    obs.append(Ob("C03.charref.interpreter-limits", "z3", "harness.C14_z3:digit_limit", 120, bounds="CONCRETE boundary lemma: numeric references at the interpreter's int/str digit limit and at chr()'s C int limits (2^31, 2^32, 2^63, 2^64) - not a solver result", replay="harness.C14_z3:replay_digit_limit",
                  encodes=["html5lib/_tokenizer.py:HTMLTokenizer.consumeNumberEntity"]))
    for i, name in enumerate(C03.DEEP):
        obs.append(Ob("C03.deep/%s" % name, "crosshair", "harness.C03:deep", T, param={"name": i, "scale": 1100, "dmax": 1 if q else 2},
                      bounds="<div> + <%s> x {0, 1100, 2200} + one of 7 closers; etree and dom" % name, encodes=["html5lib/treebuilders/base.py:TreeBuilder.generateImpliedEndTags", "html5lib/html5parser.py:HTMLParser.mainLoop"]))
    ctxs = list(range(len(pc.CONTEXTS)))
    if q:
        ctxs = ctxs[::2]
    for c in ctxs:
        prefix, cont = pc.CONTEXTS[c]
        obs.append(Ob("C03.total/ctx%02d" % c, "crosshair", "harness.C03:total", T, param={"ctx": c, "second": [] if q else SECOND},
                      bounds="context %r%s + one token over %d names x 4 tag shapes + 13 others%s; etree/dom x namespacing on/off; scripting symbolic" % (prefix, " (fragment in %r)" % cont if cont else "", len(pc.source_names()), "" if q else " + second start/end tag over 24 names"),
                      encodes=["html5lib/html5parser.py:HTMLParser.mainLoop", "html5lib/html5parser.py:HTMLParser.resetInsertionMode", "html5lib/treebuilders/base.py:TreeBuilder.*", "html5lib/treebuilders/etree.py", "html5lib/treebuilders/dom.py"]))
    return obs
