from engine.runner import Ob
ASSUMPTIONS = [
    "same symbolically shaped trees as C11 (<= 3 nodes, kinds / names / attribute sets by symbolic index, built with the real builder node classes), walked by the real etree or dom walker, fed to the real to_sax with a recording ContentHandler",
    "expected events are derived from the reference stream R7 (harness/C11.py), prefix mappings and qualified names independently from constants.adjustForeignAttributes",
]
OUTSIDE = ["trees with more than 3 nodes; handlers other than a plain recorder"]

def obligations(tier):
    q = tier == "quick"
    T = 300 if q else 1500
    return [Ob("C19.sax/start-%d/%s" % (s, "dom" if d else "etree"), "crosshair", "harness.C11:sax", T, param={"start": s, "dom": d},
               bounds="all tree shapes with <= 3 nodes; start node: %s; %s walker" % (["document", "fragment", "root element"][s], "dom" if d else "etree"),
               encodes=["html5lib/treeadapters/sax.py:to_sax", "html5lib/treeadapters/sax.py:prefix_mapping", "html5lib/treewalkers/base.py:NonRecursiveTreeWalker.__iter__"]) for s in range(3) for d in (False, True)] + [
            Ob("C19.sax-attrs/start-%d" % s, "crosshair", "harness.C11:sax", T, param={"start": s, "attrmode": True},
               bounds="tree shapes with <= 2 nodes, first node with each of 6 attribute sets (plain, colon name, xlink:href, xmlns:xlink, xmlns); start node: %s" % ["document", "fragment", "root element"][s],
               encodes=["html5lib/treeadapters/sax.py:to_sax"]) for s in range(3)]
