from engine.runner import Ob
ENC = ["html5lib/filters/alphabeticalattributes.py:_attr_key", "html5lib/filters/alphabeticalattributes.py:Filter.__iter__"]
ASSUMPTIONS = [
    "attribute keys in the filter obligations are drawn by symbolic index from a 10-key alphabet (harness/C18.py KEYS) containing the collision shapes; symbolic dict keys would be hashed (realised). The step to arbitrary names rests on the sort-key lemma (unbounded strings) and on `sorted`/OrderedDict being trusted builtins",
    "attribute values are unbounded symbolic strings compared by identity",
]
OUTSIDE = ["more than 3 attributes per tag; attribute keys outside the alphabet except through the sort-key lemma"]

def obligations(tier):
    T = 120 if tier == "quick" else 600
    return [
        Ob("C18.attr-key.lemma", "crosshair", "harness.C18:attr_key_lemma", T, bounds="namespace None or unbounded str, name and value unbounded str", encodes=ENC[:1]),
        Ob("C18.spec-key.injective", "z3", "harness.C18_z3:spec_key_injective", 60, bounds="unbounded strings; namespace None or non-empty", encodes=["(documented key of) html5lib/filters/alphabeticalattributes.py:_attr_key"], replay="harness.C18_z3:replay_injective"),
    ] + [
        Ob("C18.filter.sorts/%s/first-key-%d" % (typ, i0), "crosshair", "harness.C18:filter_sorts", T, param={"typ": typ, "i0": i0},
           bounds="0..3 attributes, first inserted key = KEYS[%d], every ordered selection of distinct further keys from the 10-key alphabet, values unbounded symbolic str, %s" % (i0, typ), encodes=ENC)
        for typ in ("StartTag", "EmptyTag") for i0 in range(10)
    ] + [
        Ob("C18.filter.passes-others", "crosshair", "harness.C18:filter_passes_others", T, bounds="token type: unbounded symbolic str other than StartTag/EmptyTag; 0..2 attributes", encodes=ENC[1:]),
        Ob("C18.filter.stream-order", "crosshair", "harness.C18:filter_stream_order", T, bounds="3-token stream, types unbounded symbolic str", encodes=ENC[1:]),
    ]
