from engine.runner import Ob
SAN = "html5lib/filters/sanitizer.py:Filter."
ASSUMPTIONS = [
    "R6 (harness/C09.py r6_scheme): scheme extraction as in the WHATWG URL parser (strip leading/trailing C0 control or space, remove TAB/LF/CR, ASCII alpha then alnum/+/-/. up to ':')",
    "urllib.parse.urlsplit is used without its functools.lru_cache wrapper (same function object underneath)",
    "URI gate with a custom protocol allow-list {a, ab}: the scheme's length is irrelevant to the code path, the short list lets 'a disallowed scheme' fit the bound; the default lists are exercised with concrete dangerous schemes around a symbolic hole at every position",
    "character-reference decoding is the parser's job (the filter sees decoded values): C14",
    "attribute keys and CSS text by symbolic index over alphabets (dict keys are hashed; the CSS regexes use Unicode classes): the CSS url() claim is closed on UNBOUNDED strings by the z3 emptiness query",
]
OUTSIDE = ["URI values longer than the bound; style values longer than the bound except through the z3 query; allow-lists other than the defaults and the two custom ones"]

def obligations(tier):
    from harness import C09
    q = tier == "quick"
    T = 300 if q else 1800
    obs = [
    ] + [
        Ob("C09.element-gate.any-name/ns%d" % n, "crosshair", "harness.C09:element_gate_unknown", T * 2, param={"ns": n}, bounds="namespace %r x every name that occurs in any allow-list entry + 16 names that must never pass; start/end/empty tag; with/without an attribute" % (C09.NSL[n],), encodes=[SAN + "sanitize_token", SAN + "allowed_token", SAN + "disallowed_token"])
        for n in range(6)
    ] + [
        Ob("C09.element-gate.listed", "crosshair", "harness.C09:element_gate_listed", T, bounds="every allow-listed element x 8 token types x namespace given or None", encodes=[SAN + "sanitize_token"]),
        Ob("C09.css.url-emptiness", "z3", "harness.C09_z3:css_url_emptiness", 200, bounds="UNBOUNDED style strings; regexes read from the AST of sanitize_css", replay="harness.C09_z3:replay_css", encodes=[SAN + "sanitize_css"]),
        Ob("C09.uri.strip-class", "z3", "harness.C09_z3:uri_strip_class", 60, bounds="every code point; class read from the AST of allowed_token", replay="harness.C09_z3:replay_strip", encodes=[SAN + "allowed_token"]),
    ]
    for a0 in range(len(C09.ATTR_ALPHA)):
        obs.append(Ob("C09.attribute-gate/first-%02d" % a0, "crosshair", "harness.C09:attribute_gate", T, param={"a0": a0},
                      bounds="0..3 distinct attribute keys (first = %r) from a %d-key alphabet (allowed, disallowed, namespaced, every URI-valued key); default and a custom allow-list" % (C09.ATTR_ALPHA[a0], len(C09.ATTR_ALPHA)), encodes=[SAN + "allowed_token"]))
    for ua in range(len(C09.URI_ATTRS) if not q else 4):
        obs.append(Ob("C09.uri-gate/%s" % (C09.URI_ATTRS[ua][1] if C09.URI_ATTRS[ua][0] is None else "ns-" + C09.URI_ATTRS[ua][1]), "crosshair", "harness.C09:uri_gate", T, param={"uattr": ua, "len": 3 if q else 4},
                      bounds="URI attribute %r with a value of <= %d characters over a 16-character URL class alphabet (letters, ':', TAB, LF, space, NUL, '/', '&', U+FFFD, NBSP, ...); allowed protocols {a, ab}" % (C09.URI_ATTRS[ua], 3 if q else 4), encodes=[SAN + "allowed_token", "urllib.parse.urlparse"]))
    for a0 in range(len(C09.URI_ATTRS)):
        obs.append(Ob("C09.uri-gate-multi/first-%02d" % a0, "crosshair", "harness.C09:uri_gate_multi", T, param={"a0": a0, "nmulti": 2 if q else 3},
                      bounds="1..2/3 distinct URI-valued attributes on one element (first = %r), each with one of 4 forbidden URLs or a harmless value" % (C09.URI_ATTRS[a0],), encodes=[SAN + "allowed_token"]))
    for si in range(len(C09.SCHEMES)):
        obs.append(Ob("C09.uri-gate-default/%02d" % si, "crosshair", "harness.C09:uri_gate_default", T, param={"scheme": si, "hole": 1 if q else 2},
                      bounds="href = %r with a hole of <= %d characters over the URL class alphabet at every position, with/without a tail; default allow-lists" % (C09.SCHEMES[si], 1 if q else 2), encodes=[SAN + "allowed_token", "html5lib/filters/sanitizer.py:data_content_type"]))
    for si in range(len(C09.SCHEMES)):
        obs.append(Ob("C09.uri-gate-custom/%02d" % si, "crosshair", "harness.C09:uri_gate_custom", T, param={"scheme": si, "nattrs": 2 if q else 19},
                      bounds="custom allowed_protocols = {http}: %r with a hole of <= 1 class character at every position, with/without a tail, on every URI-valued attribute" % (C09.SCHEMES[si],), encodes=[SAN + "allowed_token"]))
    for first in range(len(C09.CSS_ALPHA)):
        obs.append(Ob("C09.css-gate/first-%02d" % first, "crosshair", "harness.C09:css_gate", T, param={"first": first, "clen": 3 if q else 4},
                      bounds="style = one of 4 heads + <= %d characters over an 18-character CSS alphabet starting with %r" % (3 if q else 4, C09.CSS_ALPHA[first]), encodes=[SAN + "sanitize_css"]))
    return obs
