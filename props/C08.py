from engine.runner import Ob
SER = "html5lib/serializer.py:HTMLSerializer.serialize"
ASSUMPTIONS = [
    "oracle = re-tokenisation of the output by R1 (+R10) started in the tokenizer state the standard's tree construction selects for the element (namespace- and scripting-aware); optional-tag omission and the sanitizer are off (C07 / C13 / C09 / C10)",
    "text and attribute values: symbolic strings over ALL Unicode except U+0000 (parsed trees never hold it); the output is newline-normalised like any parser input before re-tokenising; element names, attribute keys and all options by symbolic index / symbolic booleans",
    "comment data and doctype identifiers are those the reference tokenizer produces from raw strings over a 10-character class alphabet (i.e. producible by parsing) ('%s' % text realises a symbolic string)",
    "output encoding None (the byte side is C15)",
]
OUTSIDE = ["text / values longer than the bound; streams of more than one element; Entity tokens; encoded output"]

def obligations(tier):
    from harness import C08
    q = tier == "quick"
    T = 300 if q else 1800
    L = 2 if q else 3
    obs = [
        Ob("C08.quoting.regex-inclusion", "z3", "harness.C08_z3:unquoted_language", 120, bounds="UNBOUNDED attribute values; both quoting regexes translated from the live pattern objects", replay="harness.C08_z3:replay_unquoted",
           encodes=["html5lib/serializer.py:_quoteAttributeSpec", "html5lib/serializer.py:_quoteAttributeLegacy"]),
        Ob("C08.comment", "crosshair", "harness.C08:comment", T, param={"clen": 3 if q else 4}, bounds="comment data producible from raw strings of <= %d characters over a 10-character class alphabet" % (3 if q else 4), encodes=[SER]),
    ] + [
        Ob("C08.doctype/%s%s%s" % ("P" if hp else "-", "S" if hs else "-", "'" if sq else "dq"), "crosshair", "harness.C08:doctype", T, param={"variant": [hp, hs, sq], "idlen": (1 if (hp and hs) else 2) if q else (2 if (hp and hs) else 3)},
           bounds="public identifier %s, system identifier %s, source quote %s; identifiers: what R1 reads from raw strings of <= %d characters over the class alphabet" % ("present" if hp else "absent", "present" if hs else "absent", "single" if sq else "double", (1 if (hp and hs) else 2) if q else (2 if (hp and hs) else 3)), encodes=[SER])
        for hp in (False, True) for hs in (False, True) for sq in (False, True)
    ]
    from engine import findings
    for ei, (name, ns) in enumerate(C08.ELEMS):
        if (findings.active("C08-raw-text-by-bare-name") and C08.sig_raw_by_name(ei, True) and C08.sig_raw_by_name(ei, False)) or (findings.active("C08-plaintext-end-tag") and C08.sig_plaintext(ei)):
            continue        # wholly covered by a listed known finding (its witness is replayed instead)
        obs.append(Ob("C08.text/%s%s" % ("svg-" if ns != C08.HTML else "", name), "crosshair", "harness.C08:text_in_element", T, param={"elem": ei, "len": L},
                      bounds="<%s> (namespace %s) + Characters or SpaceCharacters of <= %d arbitrary Unicode characters + end tag; scripting on/off; all escaping / quoting options symbolic" % (name, "svg" if ns != C08.HTML else "html", L), encodes=[SER, "xml.sax.saxutils.escape"]))
    for i in range(17):
        obs.append(Ob("C08.entity-replacement/first-%d" % i, "crosshair", "harness.C14:reverse_map", T, param={"first": i, "kmax": 1 if q else 2}, bounds="unencodable text of <= %d characters over a 17-character class alphabet: the named / numeric replacement decodes back, alone and followed by a letter, digit, '=' or ';', in text and attribute context" % (1 if q else 2),
                      encodes=["html5lib/serializer.py:htmlentityreplace_errors", "html5lib/serializer.py:_encode_entity_map"]))
    for f0 in range(len(C08.RFRAG)):
        obs.append(Ob("C08.attribute-refs/first-%02d" % f0, "crosshair", "harness.C08:attribute_refs", T, param={"f0": f0, "nfrag": 2 if q else 4},
                      bounds="attribute value = <= 2/4 fragments out of 15 reference-shaped pieces (&, lt, amp, ;, #, digits, colon, not, ...) starting with %r; tag a; quote mode, quote char, escape_lt symbolic" % C08.RFRAG[f0], encodes=[SER]))
    for ti, (tag, ns, typ) in enumerate(C08.TAGS):
      for k0 in range(len(C08.AKEYS)):
        for qmode in range(3):
          if q and (tag not in ("a", "br") or k0 not in (0, 1, 4) or (tag == "br" and k0 == 4)):
              continue
          if k0 == 3 and findings.active("C08-attribute-namespace-prefix-dropped"):
              continue      # first key namespaced: wholly covered by the listed known finding
          obs.append(Ob("C08.attributes/%s/key%d/%s" % (tag, k0, ("legacy", "spec", "always")[qmode]), "crosshair", "harness.C08:attributes", T, param={"tag": ti, "len": 1 if q else 2, "k0": k0, "qmode": qmode, "nattr": 1 if q else 2},
                      bounds="<%s> with 0..%d attributes, first key %r, second by index over 6; values of <= %d / %d arbitrary Unicode characters; quote_attr_values=%s; quote char, boolean minimisation, trailing solidus, escape_lt, sorting symbolic" % (tag, 1 if q else 2, C08.AKEYS[k0], 1 if q else 2, 0 if q else 1, ("legacy", "spec", "always")[qmode]), encodes=[SER]))
    return obs
