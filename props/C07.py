from engine.runner import Ob
ASSUMPTIONS = [
    "conforming documents are composed by symbolic index: doctype + head (4 variants) + body holding one of 22 parent contexts (flow containers, a, ins, p, headings, button, table / tbody / tr / colgroup, select / optgroup, ruby, dl, ul, svg, video, details) with two children from the context's own list of conforming children (30 flow items, 9 phrasing items, table parts ...), one of 4 separators (nothing, space, newline, comment) and one of 4 tails; run concretely after the fork, etree and dom walkers",
    "arbitrary text and attribute values (all Unicode) are decided under C08; walkers under C11; builders under C04; the filter's predicates over all names under C13. C07 decides that omission and the other options do not change how the composed documents parse",
]
OUTSIDE = ["documents that are not an instance of the grammar (this is the weakest claim of the set and is labelled so); output encodings (C15); strip_whitespace (changes the tree by design)"]

def obligations(tier):
    from harness import C07
    q = tier == "quick"
    T = 400 if q else 2400
    obs = []
    for wi in range(C07.NW):
        for wd in (True, False):
          obs.append(Ob("C07.omission/ctx%02d/%s" % (wi, "dom" if wd else "etree"), "crosshair", "harness.C07:omission", T, param={"wrap": wi, "nheads": 1 if q else 4, "wdom": wd, "tails": [0, 3] if q else None, "nseps": 2 if q else 4},
                      bounds="parent context %r x %d^2 child pairs x 2/4 separators x %d heads x %d tails; %s builder + walker; omit_optional_tags=True" % (C07.WRAPS[wi][0], len(C07.WRAPS[wi][1]), 1 if q else 4, 2 if q else 4, "dom" if wd else "etree"),
                      encodes=["html5lib/filters/optionaltags.py:Filter.*", "html5lib/serializer.py:HTMLSerializer.serialize", "html5lib/html5parser.py:HTMLParser.mainLoop"]))
        obs.append(Ob("C07.options/ctx%02d" % wi, "crosshair", "harness.C07:options", T, param={"wrap": wi, "astep": 6 if q else 1, "wdom": True if q else None},
                      bounds="parent context %r x adjacent child pairs x every combination of optional-tag omission, 3 quoting modes, quote char, boolean minimisation, trailing solidus (+space), escape_lt_in_attrs, attribute sorting x {etree, dom}" % (C07.WRAPS[wi][0],),
                      encodes=["html5lib/serializer.py:HTMLSerializer.serialize", "html5lib/filters/alphabeticalattributes.py", "html5lib/filters/optionaltags.py"]))
    return obs
