from engine.runner import Ob
S = "html5lib/_inputstream.py:HTMLUnicodeInputStream."
ENC = [S + "readChunk", S + "char", S + "charsUntil", S + "unget", S + "position", S + "_position", S + "characterErrorsUCS4"]
ASSUMPTIONS = [
    "R2 (harness/C05.py r2_*): ideal stream = newline-normalised string with an index; position = (1 + newlines before, characters since the last newline)",
    "source model: a text file-like object whose reads return between 1 and min(asked, r_i) characters (r_i symbolic) and '' only at end of input",
    "obligation (i) stubs _position and switches reportCharacterErrors off (both realise symbolic text) to keep ALL Unicode symbolic; obligation (ii) runs the real methods on text drawn by symbolic index from a class alphabet {letter, CR, LF, lead surrogate, '<', an invalid code point}",
]
OUTSIDE = ["bytes / byte streams: decoding runs in C codecs (codecs.StreamReader), which CrossHair cannot execute symbolically - NOT APPLICABLE dimension; BufferedStream (pure Python) is covered",
           "text longer than the bound; more than 3 short reads; whole-parse (tree) comparison is by composition with C02 (tokenizer steps run on exactly such pre-loaded chunks)"]

def obligations(tier):
    q = tier == "quick"
    T = 200 if q else 1500
    obs = [
    ] + [
        Ob("C05.deliver.all-unicode/cs%d-a%d" % (cs, a), "crosshair", "harness.C05:deliver", T, param={"len": 3 if q else 4, "cs": cs, "a": a, "rmax": 2 if q else 3, "csmax": 3},
           bounds="text length <= %d over ALL Unicode; first read size %d, two more symbolic read sizes 1..%d; internal chunk size %d" % (3 if q else 4, a, 2 if q else 3, cs), encodes=ENC[:2])
        for cs in range(1, 4) for a in range(1, (2 if q else 3) + 1)
    ] + [
        Ob("C05.buffered-stream/n%d" % n, "crosshair", "harness.C05:buffered", T, param={"n": n}, bounds="%d bytes, two short reads 1..2, reads of 1..3 and 1..2, seek anywhere into the buffered prefix, re-read <= 4" % n, encodes=["html5lib/_inputstream.py:BufferedStream.read", "html5lib/_inputstream.py:BufferedStream.seek", "html5lib/_inputstream.py:BufferedStream.tell", "html5lib/_inputstream.py:BufferedStream._readFromBuffer", "html5lib/_inputstream.py:BufferedStream._readStream"]) for n in range(5)
    ]
    for first in range(6):
        for op in range(5):
            obs.append(Ob("C05.script/first-%d/op-%d" % (first, op), "crosshair", "harness.C05:script", T, param={"len": 3 if q else 4, "first": first, "op": op, "rmax": 2 if q else 3, "csmax": 2 if q else 3},
                          bounds="text of <= %d characters over the 6-class alphabet starting with ALPHA[%d]; two read sizes 1..%d, chunk size 1..%d; script = read 0..k chars, unget 0..2, %s, read to end; position checked after every step; error count checked"
                          % (3 if q else 4, first, 2 if q else 3, 2 if q else 3, ["no scan", "charsUntil('<&')", "charsUntil('a<')", "charsUntil('<&', opposite)", "charsUntil('a<', opposite)"][op]), encodes=ENC))
    return obs
