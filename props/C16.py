from engine.runner import Ob
ASSUMPTIONS = [
    "documents are built as catalogue context (concrete text prefix, or fragment container) + 1 (quick) / 2 (thorough) tokens rendered as text; token kind and element name are drawn by SYMBOLIC INDEX over the source-derived name list (every name in a dispatch table / name set of html5parser.py, treebuilders/base.py, constants.py, + fresh names); after the fork the run is the real tokenizer + parser on concrete text",
    "harness substitutions: pure-Python ElementTree, MethodDispatcher linear scan, per-phase handler cache bypassed (C12 decides the cache)",
    "tokenizer error sites: decided on the C02 catalogue pre-states with a symbolic continuation of arbitrary Unicode characters (obligations C16.tokenizer-errors/*)",
    "message-table consistency (C16.templates) is a CONCRETE lemma over constants.E and the AST of the three source files, reported as such",
]
OUTSIDE = ["documents that are not catalogue context + <= 2 tokens; 'conforming documents record no errors' only on the 10 conforming skeletons with a symbolic text hole"]

def obligations(tier):
    from harness import parsecommon as pc, C02
    q = tier == "quick"
    T = 300 if q else 1800
    obs = [
        Ob("C16.templates", "z3", "harness.C16:templates", 120, bounds="all message templates and all literal error sites (AST) - concrete lemma", replay="harness.C16:replay_template", encodes=["html5lib/constants.py:E", "html5lib/html5parser.py:HTMLParser.parseError"]),
    ] + [
        Ob("C16.conforming-no-errors/doc%d" % d, "crosshair", "harness.C16:conforming_no_errors", T, param={"tlen": 1 if q else 2, "doc": d}, bounds="conforming skeleton x symbolic text of <= %d arbitrary characters (no markup / invalid code points), scripting on/off, strict mode" % (1 if q else 2),
           encodes=["html5lib/html5parser.py:HTMLParser.mainLoop", "html5lib/html5parser.py:HTMLParser.parseError"]) for d in range(14)
    ]
    for b in (0, 1):
        obs.append(Ob("C16.positions-after-restart/bom%d" % b, "crosshair", "harness.C06:precedence", T, param={"bom": b, "a0": 0, "amax": 1},
                      bounds="byte input: encoding arguments x in-window / late declarations (a late one restarts the parse); every recorded error position lies inside the input", encodes=["html5lib/_inputstream.py:HTMLUnicodeInputStream.reset", "html5lib/_inputstream.py:HTMLUnicodeInputStream.position", "html5lib/html5parser.py:HTMLParser._parse"]))
    ctxs = list(range(len(pc.CONTEXTS)))
    if q:
        ctxs = ctxs[::3]
    for c in ctxs:
      prefix, cont = pc.CONTEXTS[c]
      for scr in ((False,) if q else (False, True)):
        obs.append(Ob("C16.strict-equiv/ctx%02d/scripting-%s" % (c, "on" if scr else "off"), "crosshair", "harness.C16:strict_equiv", T, param={"ctx": c, "two": False, "scripting": scr},
                      bounds="context %r%s + one token: start/end/start-with-attribute/self-closing tag of every source-derived name (%d) or one of %d other tokens; strict vs non-strict" % (prefix, " in fragment container %r" % cont if cont else "", len(pc.source_names()), len(pc.OTHER_TOKENS)),
                      encodes=["html5lib/html5parser.py:HTMLParser.mainLoop", "html5lib/html5parser.py:HTMLParser.parseError", "html5lib/html5parser.py:Phase.*"]))
    # tokenizer error sites on the C02 catalogue
    cat = C02.catalogue()
    for (ci, state), prefixes in sorted(cat.items()):
        if ci not in ((0, 1, 2, 4) if q else (0, 2, 4)):
            continue
        k = (2 if q else 3) - (1 if state in ("entityDataState", "characterReferenceInRcdata") else 0)
        obs.append(Ob("C16.tokenizer-errors/%s/cfg%d" % (state, ci), "crosshair", "harness.C16_tok:errors_wellformed", T, param={"k": k, "cfg": ci, "prefix": prefixes[0]},
                      bounds="pre-state %s after %r; continuation of <= %d arbitrary Unicode characters; every ParseError token has a code in E whose template formats with its datavars" % (state, prefixes[0], 2 if q else 3),
                      encodes=["html5lib/_tokenizer.py:HTMLTokenizer." + state]))
    return obs
