from engine.runner import Ob
ENC = ["html5lib/filters/optionaltags.py:Filter.is_optional_start", "html5lib/filters/optionaltags.py:Filter.is_optional_end"]
ASSUMPTIONS = [
    "R5 (harness/C13.py r5_*): the standard's optional-tag rules transcribed as a predicate over the (previous, token, next) window; permissive where revisions differ (union of follower lists)",
    "tokens are dicts with keys type/name/data as produced by the tree walkers; `data` truthiness is the only use of attributes by the filter",
    "CrossHair's symbolic str / bool / list models; adapter plugin (engine/chplugin.py)",
]
OUTSIDE = ["parse-equivalence of the filtered stream for conforming documents is decided under C07 (omission vs real parser)",
           "streams longer than 3 tokens in iter_only_deletes are covered through the slider_windows obligation (decision depends on the window only)"]

def obligations(tier):
    T = 60 if tier == "quick" else 240
    return [
        Ob("C13.start.only-optional-names", "crosshair", "harness.C13:start_only_optional", T, bounds="tagname, neighbour types and names: unbounded symbolic str; prev/next present or absent", encodes=ENC[:1]),
        Ob("C13.end.only-optional-names", "crosshair", "harness.C13:end_only_optional", T, bounds="unbounded symbolic str", encodes=ENC[1:]),
        Ob("C13.start.position-rule", "crosshair", "harness.C13:start_position_rule", T, bounds="unbounded symbolic str; window (prev, tok, next)", encodes=ENC[:1]),
        Ob("C13.end.position-rule", "crosshair", "harness.C13:end_position_rule", T, bounds="unbounded symbolic str; window (tok, next)", encodes=ENC[1:]),
        Ob("C13.slider.windows", "crosshair", "harness.C13:slider_windows", T, bounds="opaque tokens, stream length <= 5", encodes=["html5lib/filters/optionaltags.py:Filter.slider"]),
        Ob("C13.iter.dispatch", "crosshair", "harness.C13:iter_dispatch", T * 2 if tier == "quick" else 2400, param={"n": 3 if tier == "quick" else 4},
           bounds="stream length <= %d; token types unbounded symbolic str; attributes present/absent; predicate answers arbitrary booleans" % (3 if tier == "quick" else 4),
           encodes=["html5lib/filters/optionaltags.py:Filter.__iter__", "html5lib/filters/optionaltags.py:Filter.slider"]),
        Ob("C13.iter.only-deletes", "crosshair", "harness.C13:iter_only_deletes", T * 2,
           bounds="focus token with unbounded symbolic type/name + one following non-tag token; real predicates", encodes=["html5lib/filters/optionaltags.py:Filter.__iter__"] + ENC),
    ]
