from engine.runner import Ob
IS = "html5lib/_inputstream.py:"
ASSUMPTIONS = [
    "R3 (refs/r3_prescan.py): the standard's prescan and meta-content extraction written independently; label resolution through webencodings (the Encoding Standard's table, same third-party table html5lib uses)",
    "prescan inputs are sequences of <= 2/3 WELL-FORMED markup units out of 30 (comments incl. a meta inside, tags with quoted '>' and meta-looking attribute values, end tags, doctype, PI, text, every meta declaration form / quote style / attribute order / label kind) joined by every kind of whitespace, chosen by symbolic index; plus a window-boundary family. On MALFORMED markup html5lib's prescan deviates from the 2020 standard in at least 9 ways: outside this domain, listed as a known finding with one minimal input each",
    "precedence: BOM in 6 kinds x each of the five *_encoding arguments in {absent, valid label, invalid label, UTF-16 label} x 4 meta declarations x 3 late-meta variants, by symbolic index",
    "chardet is not installed (that code path is dead here)",
]
OUTSIDE = ["decoding itself (C codecs): 'tree equals tree of the decoded bytes' is executed on one Latin-1 probe byte, not closed symbolically - NOT APPLICABLE dimension", "byte strings that are not an instance of a skeleton / fragment sequence"]

def obligations(tier):
    from harness import C06
    q = tier == "quick"
    T = 300 if q else 1800
    obs = [Ob("C06.prescan.window", "crosshair", "harness.C06:prescan_window", T, bounds="a declaration at every offset 1000..1030 behind a comment / whitespace (1024-byte window)", encodes=[IS + "HTMLBinaryInputStream.detectEncodingMeta", IS + "EncodingParser.getEncoding"])]
    obs.append(Ob("C06.prescan.whitespace", "crosshair", "harness.C06:prescan_whitespace", T, bounds="4 meta skeletons with every kind of whitespace (7 choices) at 4 gaps", encodes=[IS + "EncodingParser.getAttribute", IS + "EncodingBytes.skip"]))
    for f in range(C06.NU):
        obs.append(Ob("C06.prescan.units/first-%02d" % f, "crosshair", "harness.C06:prescan_units", T, param={"first": f, "nunits": 2 if q else 3},
                      bounds="sequences of <= %d well-formed markup units out of %d starting with %r, joined by one of 7 whitespace strings" % (2 if q else 3, C06.NU, C06.UNITS[f]), encodes=[IS + "EncodingParser.*", IS + "EncodingBytes.*", IS + "ContentAttrParser.parse", IS + "lookupEncoding"]))
    for b in range(6):
        for a0 in range(4):
            obs.append(Ob("C06.precedence/bom%d/override%d" % (b, a0), "crosshair", "harness.C06:precedence", T, param={"bom": b, "a0": a0, "amax": 1 if q else 3},
                          bounds="BOM kind %d, override_encoding choice %d, transport / parent x 4 choices, likely / default x %d choices, 4 prescan-window meta declarations, 5 late-meta variants (one beyond the first 10240-character chunk)" % (b, a0, 2 if q else 4),
                          encodes=[IS + "HTMLBinaryInputStream.determineEncoding", IS + "HTMLBinaryInputStream.detectBOM", IS + "HTMLBinaryInputStream.changeEncoding", "html5lib/html5parser.py:InHeadPhase.startTagMeta", "html5lib/html5parser.py:HTMLParser._parse"]))
    return obs
