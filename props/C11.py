from engine.runner import Ob
ENC = ["html5lib/treewalkers/base.py:NonRecursiveTreeWalker.__iter__", "html5lib/treewalkers/base.py:TreeWalker.text", "html5lib/treewalkers/etree.py:TreeWalker.getNodeDetails/getFirstChild/getNextSibling/getParentNode",
       "html5lib/treewalkers/dom.py:TreeWalker.getNodeDetails", "html5lib/filters/lint.py:Filter.__iter__"]
ASSUMPTIONS = [
    "tree shapes: <= 3 nodes under a root container; parent vector, node kind (5 element name/namespace choices incl. a void HTML name, the same name in SVG, no-namespace and a name with a colon; 4 texts; a comment), one of 6 attribute sets (plain, name with colon, xlink:href, xmlns:xlink, xmlns) - all by symbolic index; trees are built with the real builder node classes of both back ends (pure-Python ElementTree, minidom)",
    "reference stream R7 (harness/C11.py _ref_stream): recursive definition of the expected tokens; comparing with it decides balance, void handling, non-empty names, text splitting, order and 'rebuilding gives the tree back' at once",
    "adjacent text nodes and void elements with children are excluded (the builders never produce them)",
]
OUTSIDE = ["trees with more than 3 nodes (the etree walker's parent-stack arithmetic is exercised to depth 3); doctype nodes inside fragments; lxml walker (not installed), genshi"]

def obligations(tier):
    q = tier == "quick"
    T = 300 if q else 1500
    obs = [Ob("C11.text.split", "crosshair", "harness.C11:text_split", T, param={"tlen": 3 if q else 4}, bounds="text of <= %d characters over ALL Unicode" % (3 if q else 4), encodes=ENC[1:2])]
    for start in range(6):
        what = ["whole document", "fragment", "root element", "element node 1", "element node 2", "element node 3"][start]
        for ns in (True, False):
          obs.append(Ob("C11.walk/start-%d/ns-%s" % (start, "on" if ns else "off"), "crosshair", "harness.C11:walk", T, param={"start": start, "ns": ns},
                      bounds="all tree shapes with <= 3 nodes (see assumptions), no attributes; walk started at: %s; namespacing on/off; etree and dom walkers, stream vs reference, lint filter, etree == dom" % what, encodes=ENC))
        obs.append(Ob("C11.walk-attrs/start-%d" % start, "crosshair", "harness.C11:walk", T, param={"start": start, "attrmode": True},
                      bounds="tree shapes with <= 2 nodes, first node with each of the 6 attribute sets; walk started at: %s" % what, encodes=ENC))
    return obs
