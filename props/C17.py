from engine.runner import Ob
import itertools
ENC = ["html5lib/filters/whitespace.py:Filter.__iter__", "html5lib/filters/whitespace.py:collapse_spaces"]
ASSUMPTIONS = [
    "R8 (harness/C17.py r8_*): reference whitespace collapse with an explicit stack of open element names",
    "walker contract as precondition: end tags match the innermost open start tag; SpaceCharacters tokens hold only the five HTML whitespace characters (C11 decides this for the walkers)",
    "CrossHair's model of `re` (SPACES_REGEX.sub on a symbolic str); cross-checked by the direct z3 query C17.regex.class on the live pattern",
    "obligations are split by token-type class (StartTag, EndTag, Characters, SpaceCharacters, '*' = any other string) purely to run in parallel; the classes partition all strings",
]
OUTSIDE = ["streams longer than the bound; text longer than the bound per token (the kernel obligation covers the regex for longer text up to d+2)"]
CLS = ["StartTag", "EndTag", "Characters", "SpaceCharacters", "*"]

def _wf(combo):
    # prune type sequences that cannot be well formed (an EndTag needs an open StartTag): precondition would be unsatisfiable
    depth = 0
    for t in combo:
        if t == "StartTag":
            depth += 1
        elif t == "EndTag":
            if depth == 0:
                return False
            depth -= 1
    return True

def obligations(tier):
    q = tier == "quick"
    T = 90 if q else 400
    obs = [
        Ob("C17.collapse.kernel", "crosshair", "harness.C17:collapse_kernel", T, param={"d": 2 if q else 3}, bounds="text length <= %d, all Unicode" % (4 if q else 5), encodes=ENC[1:]),
        Ob("C17.filter.preserve-depth", "crosshair", "harness.C17:inside_preserve_untouched", T * 2, param={"d": 1 if q else 2}, bounds="nesting depth <= 3 inside each preserve element; one arbitrary token; data length <= %d" % (2 if q else 3), encodes=ENC),
        Ob("C17.regex.class", "z3", "harness.C17_z3:spaces_regex_class", 60, bounds="unbounded strings", encodes=["html5lib/filters/whitespace.py:SPACES_REGEX"], replay="harness.C17_z3:replay_regex"),
    ]
    nmax = 2 if q else 3
    for n in range(0, nmax + 1):
        for combo in itertools.product(CLS, repeat=n):
            if not _wf(combo):
                continue
            tag = "-".join(c[:2] for c in combo) or "empty"
            obs.append(Ob("C17.filter.equals-reference/%d/%s" % (n, tag), "crosshair", "harness.C17:filter_equals_reference", T, param={"n": n, "d": 2, "types": list(combo)},
                          bounds="stream of %d tokens with type classes %s; names unbounded symbolic str; data length <= 2, all Unicode" % (n, list(combo)), encodes=ENC))
            if n <= 2 and n >= 1:
                obs.append(Ob("C17.filter.idempotent/%d/%s" % (n, tag), "crosshair", "harness.C17:filter_idempotent", T, param={"n": n, "d": 2, "types": list(combo)},
                              bounds="stream of %d tokens with type classes %s; data length <= 2" % (n, list(combo)), encodes=ENC))
    return obs
