from engine.runner import Ob
ASSUMPTIONS = [
    "abstract tree (R7 = harness/parsecommon.py norm_et / norm_dom): elements as ((namespace, local name), sorted attributes ((namespace, local name), value), children), adjacent text merged, comments, doctype; HTML elements without namespace are mapped to the HTML namespace (the documented difference when namespacing is off)",
    "parser level: catalogue context + token(s) by symbolic index, run concretely after the fork with etree (fullTree and root form) and dom, namespacing on/off; scripting symbolic",
    "primitive level: operation scripts respect the call preconditions of the tree-construction code (a node is inserted only when detached, reference nodes are children of the target, no cycles)",
    "pure-Python ElementTree; xml.dom.minidom as shipped",
]
OUTSIDE = ["contexts not in the catalogue; more than 2 symbolic tokens (+ a fixed third probe); primitive scripts longer than 3 operations or on more than 5 nodes; lxml builder (not installed)"]
SECOND = ["table", "tr", "td", "b", "i", "p", "a", "select", "svg", "div", "li", "caption", "form", "nobr", "body", "html", "zz", "button", "option", "h1", "math", "title", "textarea", "frameset"]

def obligations(tier):
    from harness import parsecommon as pc
    q = tier == "quick"
    T = 400 if q else 3000
    obs = []
    OPN = ["appendChild", "insertBefore", "insertText", "insertText-before", "reparentChildren", "removeChild", "set-attributes", "cloneNode+append"]
    for o1 in range(8):
      for o2 in range(8):
        obs.append(Ob("C04.primitives.lockstep/%s/%s" % (OPN[o1], OPN[o2]), "crosshair", "harness.C04:lockstep", T, param={"o1": o1, "o2": o2, "nops": 2, "nodes": 4 if q else 5},
                      bounds="scripts of 1..2 node primitives (first = %s, second = %s) with symbolic operands on a %d-node tree, etree vs dom in lock-step" % (OPN[o1], OPN[o2], 4 if q else 5),
                      encodes=["html5lib/treebuilders/etree.py:Element.appendChild/insertBefore/insertText/removeChild/reparentChildren/cloneNode/hasContent/_setAttributes", "html5lib/treebuilders/dom.py:NodeBuilder.*", "html5lib/treebuilders/base.py:Node.reparentChildren"]))
    ctxs = list(range(len(pc.CONTEXTS)))
    if q:
        ctxs = sorted(set(ctxs[::3]) | set(i for i, (p, c) in enumerate(pc.CONTEXTS) if "table" in p or " a" in p))
    for c in ctxs:
        prefix, cont = pc.CONTEXTS[c]
        groups = [[]] if (q or c % 2) else [[], SECOND[0:4], SECOND[4:8]]
        for gi, sec in enumerate(groups):
          obs.append(Ob("C04.agree/ctx%02d/second%d" % (c, gi), "crosshair", "harness.C04:agree", T, param={"ctx": c, "second": sec},
                      bounds="context %r%s + token (4 shapes x %d names + 13 others) + %s + one of 3 probes (nothing, text, '</table>y'); etree-full/etree/dom x namespacing on/off" % (prefix, " (fragment in %r)" % cont if cont else "", len(pc.source_names()), ("second start/end tag over %r" % sec) if sec else "no second token"),
                      encodes=["html5lib/treebuilders/base.py:TreeBuilder.insertElementTable/insertText/getTableMisnestedNodePosition/getFragment", "html5lib/treebuilders/etree.py", "html5lib/treebuilders/dom.py", "html5lib/html5parser.py:InBodyPhase.endTagFormatting"]))
    return obs
