from engine.runner import Ob
BASE = "html5lib/treebuilders/base.py:TreeBuilder."
ASSUMPTIONS = [
    "KERNEL OBLIGATIONS ONLY: whole-algorithm equivalence with the WHATWG tree-construction algorithm is out of reach for this technique (no independent model offline, pointer-rich state, ~1 s per symbolic path through mainLoop); what is decided is a set of decisions the algorithm is assembled from, each against a few-line reference R4 written from the standard (harness/C01.py)",
    "stacks (depth <= 4 above html) over class-representative alphabets (one element per class the five scope definitions / the implied-end-tag list distinguish, plus the same local names under another namespace), fragment context names, integration-point elements x encoding attribute values, 29 doctypes x keyword case, formatting-element sequences (<= 5 of {b, i} x 5 attribute sets; thorough: 3 names x 7 attribute sets) - all by symbolic index, run concretely after the fork",
    "quirks-mode reference = 29 doctype facts I am certain of (not the full public-identifier table)",
]
OUTSIDE = ["every handler body, the adoption agency algorithm, foster parenting, table / select / frameset mode rules and all multi-token interactions are NOT compared with the standard here (they are exercised for totality, builder-independence, strictness and round trip under C03 / C04 / C16 / C07)",
           "differences from the 2020 revision that postdate html5lib 1.1's model (template, rb / rtc in implied end tags, fragment reset for td / th / head) are one listed known finding"]

def obligations(tier):
    from harness import C01
    q = tier == "quick"
    T = 300 if q else 1800
    obs = [
        Ob("C01.implied-end-tags", "crosshair", "harness.C01:implied_end_tags", T, param={"idepth": 2 if q else 3}, bounds="stacks of depth <= %d over a 14-element class alphabet x every exclusion" % (2 if q else 3), encodes=[BASE + "generateImpliedEndTags"]),
        Ob("C01.reset-insertion-mode", "crosshair", "harness.C01:reset_mode", T, bounds="25 fragment context elements", encodes=["html5lib/html5parser.py:HTMLParser.resetInsertionMode", "html5lib/html5parser.py:HTMLParser.reset"]),
        Ob("C01.integration-points", "crosshair", "harness.C01:integration_points", T, bounds="16 (name, namespace) pairs x 9 encoding attribute values", encodes=["html5lib/html5parser.py:HTMLParser.isHTMLIntegrationPoint", "html5lib/html5parser.py:HTMLParser.isMathMLTextIntegrationPoint"]),
        Ob("C01.adoption-agency.outer-loop", "crosshair", "harness.C01:adoption_outer_loop", T, bounds="<b|i|a> + 0..12 nested div + 'x</..>y': the outer loop runs at most 8 times (k blocks need k + 1 runs: y inside the formatting element iff k >= 8)", encodes=["html5lib/html5parser.py:InBodyPhase.endTagFormatting"]),
        Ob("C01.table-text.whitespace", "crosshair", "harness.C01:table_text", T * 2, param={"tlen": 1 if q else 2}, bounds="<table> / <tbody> / <tr> context + text of 1..%d ARBITRARY Unicode characters (fully symbolic, through the real tokenizer and parser): in place iff all ASCII whitespace, else foster-parented" % (1 if q else 2),
           encodes=["html5lib/html5parser.py:InTableTextPhase.flushCharacters", "html5lib/html5parser.py:InTablePhase.processCharacters", "html5lib/treebuilders/base.py:TreeBuilder.insertText"]),
        Ob("C01.quirks-mode", "crosshair", "harness.C01:quirks", T, bounds="29 doctypes x keyword case; compatMode and the p/table nesting it controls", encodes=["html5lib/html5parser.py:InitialPhase.processDoctype", "html5lib/html5parser.py:InBodyPhase.startTagTable"]),
    ]
    for v in range(5):
        for t in range(len(C01.TARGETS)):
            if q and C01.TARGETS[t] not in ("p", "table", "li", "option", "title"):
                continue
            obs.append(Ob("C01.scope/%s/%s" % (C01.VARIANTS[v] or "default", C01.TARGETS[t]), "crosshair", "harness.C01:scope", T, param={"variant": v, "target": t, "depth": 2 if q else 3, "nsa": 17 if q else 12},
                          bounds="'has a %s element in %s scope' on stacks of depth <= %d over a %d-element class alphabet" % (C01.TARGETS[t], C01.VARIANTS[v] or "default", 2 if q else 3, 17 if q else 12), encodes=[BASE + "elementInScope", "html5lib/treebuilders/base.py:listElementsMap", "html5lib/constants.py:scopingElements"]))
    for n0 in range(2 if q else 3):
        obs.append(Ob("C01.noahs-ark/%s" % C01.FNAMES[n0], "crosshair", "harness.C01:noahs_ark", T * 2 if q else 1500, param={"n0": n0, "k": 4, "full": not q},
                      bounds="<p> + <= %d formatting start tags (first %s) over %s + 'x</p>y': the chain reconstructed around 'y' equals the list of active formatting elements under the Noah's-ark clause" % (4 if q else 5, C01.FNAMES[n0], "{b, i} x 5 attribute sets" if q else "{b, i, font} x 7 attribute sets"),
                      encodes=["html5lib/html5parser.py:InBodyPhase.addFormattingElement", "html5lib/html5parser.py:InBodyPhase.isMatchingFormattingElement", BASE + "reconstructActiveFormattingElements", "html5lib/treebuilders/base.py:ActiveFormattingElements.append"]))
    return obs
