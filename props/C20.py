from engine.runner import Ob
ENC = ["html5lib/_ihatexml.py:InfosetFilter.toXmlName", "html5lib/_ihatexml.py:InfosetFilter.fromXmlName", "html5lib/_ihatexml.py:InfosetFilter.escapeChar",
       "html5lib/_ihatexml.py:InfosetFilter.unescapeChar", "html5lib/_ihatexml.py:InfosetFilter.getReplacementCharacter"]
ASSUMPTIONS = [
    "R9: expat (xml.parsers.expat, XML 1.0 4th edition name rules) is the XML-name oracle, evaluated at check time for all 65536 BMP code points in first and non-first position",
    "name characters in the function-level obligations come by symbolic index from a 12-character class alphabet (one representative per (legal-first, legal-later) class, the escape alphabet U/0/A/F, ':' and NUL); the per-character classes are closed for every BMP code point by the z3 obligation C20.regex.classes",
    "non-BMP characters are outside the claim (the module documents it does not handle them)",
]
OUTSIDE = ["names longer than the bound (escape-pattern interplay needs 6 characters: covered only up to length 4 in the thorough tier)", "non-BMP code points"]

def obligations(tier):
    q = tier == "quick"
    T = 120 if q else 900
    obs = [
        Ob("C20.regex.classes", "z3", "harness.C20_z3:name_char_classes", 120, bounds="every BMP code point, first and non-first position; pubid class", replay="harness.C20_z3:replay_name_char",
           encodes=["html5lib/_ihatexml.py:nonXmlNameFirstBMPRegexp", "html5lib/_ihatexml.py:nonXmlNameBMPRegexp", "html5lib/_ihatexml.py:nonPubidCharRegexp"]),
        Ob("C20.comment.coercion", "crosshair", "harness.C20:comment_coercion", T, param={"len": 3 if q else 5}, bounds="comment length <= %d, all Unicode; both comment flags symbolic" % (5 if q else 7), encodes=["html5lib/_ihatexml.py:InfosetFilter.coerceComment"]),
    ] + [
        Ob("C20.pubid.coercion/first-%d" % i, "crosshair", "harness.C20:pubid_coercion", T, param={"first": i}, bounds="pubid length <= 3 over a 10-character class alphabet, first character PALPHA[%d]; preventSingleQuotePubid symbolic" % i, encodes=["html5lib/_ihatexml.py:InfosetFilter.coercePubid"])
        for i in range(10)
    ] + [
        Ob("C20.attribute.flags", "crosshair", "harness.C20:attribute_flags", T, bounds="xmlns:-prefixed and plain names with 2 alphabet characters; both drop flags and the attribute namespace symbolic", encodes=["html5lib/_ihatexml.py:InfosetFilter.coerceAttribute"] + ENC[:1]),
    ]
    L = 3 if q else 4
    for first in range(12):
        obs.append(Ob("C20.name.coercion/first-%d" % first, "crosshair", "harness.C20:name_coercion", T if q else 3000, param={"len": L, "first": first},
                      bounds="names of length 1..%d over the 12-character alphabet, first character = ALPHA[%d]; flags symbolic" % (L, first), encodes=ENC + ["html5lib/_ihatexml.py:InfosetFilter.coerceElement", "html5lib/_ihatexml.py:InfosetFilter.coerceAttribute"]))
    if not q:
        for first in range(12):
            obs.append(Ob("C20.name.injective/first-%d" % first, "crosshair", "harness.C20:name_injective", T, param={"first": first},
                          bounds="pairs of names (first of length 1..2 starting with ALPHA[%d], second of length 1..2 or a 3-character name ending in a doubled character) over the 12-character alphabet" % first, encodes=ENC[:1]))
    return obs
