from engine.runner import Ob
ASSUMPTIONS = [
    "head layouts: <= 3 items by symbolic index out of 12 (meta charset, two content-type pragmas in both attribute orders, other metas, link, title, whitespace, comment, namespaced / upper-case charset), normal or empty head; 7 encodings by symbolic index; run concretely after the fork",
    "byte side: 5 document skeletons x 7 text probes (ASCII, Latin-1, Euro sign, Cyrillic, astral, '&', NBSP + '<') x 7 encodings x optional-tag omission x sanitizer x walker; str.encode / codecs / decoding are C code and are executed, not encoded symbolically (NOT APPLICABLE dimension for the solver: closure over all characters / encodings is not claimed)",
    "htmlentityreplace_errors itself is decided under C14.reverse-map",
]
OUTSIDE = ["documents other than the skeletons; encodings outside the 7; utf-16 output is a listed known finding"]

def obligations(tier):
    from harness import C15
    q = tier == "quick"
    T = 300 if q else 1200
    obs = []
    for first in range(C15.NI):
        obs.append(Ob("C15.head-layouts/first-%02d" % first, "crosshair", "harness.C15:head_layouts", T, param={"first": first},
                      bounds="head with 0..3 items (first = item %d of 12) or an empty head; 7 encodings" % first, encodes=["html5lib/filters/inject_meta_charset.py:Filter.__iter__"]))
    for d in range(C15.ND):
        obs.append(Ob("C15.pipeline/doc%d" % d, "crosshair", "harness.C15:pipeline", T, param={"doc": d},
                      bounds="document skeleton %d x 7 text probes x 7 encodings x omit_optional_tags x sanitize x {etree, dom}" % d,
                      encodes=["html5lib/serializer.py:HTMLSerializer.serialize", "html5lib/serializer.py:HTMLSerializer.encode", "html5lib/serializer.py:htmlentityreplace_errors", "html5lib/filters/inject_meta_charset.py:Filter.__iter__",
                               "html5lib/_inputstream.py:HTMLBinaryInputStream.determineEncoding", "html5lib/html5parser.py:InHeadPhase.startTagMeta"]))
    return obs
