from engine.runner import Ob
from html5lib.constants import entities
TOK = "html5lib/_tokenizer.py:HTMLTokenizer."
ENC_N = [TOK + "consumeNumberEntity"]
ENC_E = [TOK + "consumeEntity", TOK + "entityDataState", TOK + "characterReferenceInRcdata", TOK + "processEntityInAttribute",
         "html5lib/_trie/py.py:Trie.has_keys_with_prefix", "html5lib/_trie/_base.py:Trie.longest_prefix", "html5lib/_inputstream.py:HTMLUnicodeInputStream.char", "html5lib/_inputstream.py:HTMLUnicodeInputStream.unget"]
ASSUMPTIONS = [
    "R10 (refs/r10_charref.py): the standard's character-reference algorithm over Python's own html.entities.html5 / html._invalid_charrefs tables",
    "numeric_value: the module-global int seen by _tokenizer is replaced by a stub returning an arbitrary symbolic n >= 0 (int() itself trusted); the unstubbed digit path is C14.numeric.digits",
    "pre-loaded real HTMLUnicodeInputStream (no underlying source; C05 decides chunk delivery); reportCharacterErrors switched off",
    "pure-Python bisect (sys.modules['_bisect']=None) so that the entity trie compares symbolic strings instead of handing them to C",
    "comparison is on decoded text + unconsumed remainder (flushed characters are alphanumerics/#/x which every return state treats as text)",
]
OUTSIDE = ["characters following a named reference beyond the tail bound (1 quick / 2 thorough)", "digit strings longer than the bound except for the concrete interpreter digit-limit lemma",
           "str.encode / codecs machinery that calls htmlentityreplace_errors (C)"]

def obligations(tier):
    q = tier == "quick"
    T = 150 if q else 900
    N = len(entities)
    obs = [
        Ob("C14.numeric.value", "crosshair", "harness.C14:numeric_value", 600 if q else 1200, bounds="value n: UNBOUNDED non-negative integer; terminator: any character or EOF; hex and decimal", encodes=ENC_N),
    ] + [
        Ob("C14.numeric.digits/%s/ctx%d" % (("dec", "x", "X")[kind], ctx), "crosshair", "harness.C14:numeric_digits", T, param={"tail": 1 if q else 2, "kind": kind, "ctx": ctx},
           bounds="'&%s' + <= %d digits drawn from the class representatives %r + terminator from 15 class representatives incl. EOF (the arbitrary-Unicode terminator is closed by C14.numeric.value), context %d; int() NOT stubbed" % (("#", "#x", "#X")[kind], 2 if q else 3, "09afAF1g", ctx), encodes=ENC_N + ENC_E)
        for kind in range(3) for ctx in range(5)
    ] + [
        Ob("C14.arbitrary", "crosshair", "harness.C14:arbitrary", T * 2, param={"tail": 0}, bounds="any string of <= 1 character (all Unicode) after '&', 5 contexts (2 characters do not close within 30 min: the entity trie scans 2231 keys per symbolic lookup)", encodes=ENC_E),
        Ob("C14.tables", "z3", "harness.C14_z3:tables", 120, bounds="all 2231 named rows (concrete equality with html.entities.html5) + z3 query over every numeric value on the replacement table", replay="harness.C14_z3:replay_tables",
           encodes=["html5lib/constants.py:entities", "html5lib/constants.py:replacementCharacters"]),
        Ob("C14.numeric.digit-limit", "z3", "harness.C14_z3:digit_limit", 120, bounds="CONCRETE boundary lemma at the interpreter's int/str digit limit and chr()'s C int limits (not a solver result)", replay="harness.C14_z3:replay_digit_limit", encodes=ENC_N),
    ] + [
        Ob("C14.reverse-map/first-%d" % i, "crosshair", "harness.C14:reverse_map", T, param={"first": i, "kmax": 2}, bounds="object of <= 2 characters over a 17-character class alphabet starting with RALPHA[%d], every start/end window" % (i,),
           encodes=["html5lib/serializer.py:htmlentityreplace_errors", "html5lib/serializer.py:_encode_entity_map"]) for i in range(17)
    ] + [
        Ob("C14.numeric.leading-zeros/ctx%d" % ctx, "crosshair", "harness.C14:numeric_leading_zeros", T, param={"ctx": ctx, "zmax": 12 if q else 40},
           bounds="'&#', '&#x', '&#X' + 0..%d leading zeros + one class digit + '1' + optional ';', context %d; int() NOT stubbed" % (12 if q else 40, ctx), encodes=ENC_N + ENC_E) for ctx in range(5)
    ] + [
    ]
    names = sorted(entities)
    legacy = [i for i, n in enumerate(names) if not n.endswith(";")]
    if q:
        sel = sorted(set(legacy + list(range(0, N, 21))))
        per = 14
    else:
        sel = list(range(N))
        per = 20
    for b in range(0, len(sel), per):
        chunk = sel[b:b + per]
        obs.append(Ob("C14.named/%04d-%04d" % (chunk[0], chunk[-1]), "crosshair", "harness.C14:named", T * 2, param={"names": chunk, "tail": 1 if q else 2},
                      bounds="%d entity names of the live table (sorted index %d..%d%s) x every continuation character towards a longer name + 15 class representatives incl. EOF%s x 5 contexts (data, RCDATA, attribute \", ', unquoted)"
                      % (len(chunk), chunk[0], chunk[-1], ", quick subset: all legacy names + every 21st" if q else "", "" if q else " x second character in {none ; = a} for legacy names"), encodes=ENC_E))
    return obs
