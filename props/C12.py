from engine.runner import Ob
ASSUMPTIONS = [
    "first use A = catalogue context (document or fragment) + one of 39 state-leaving tokens (pre / textarea / table text / raw-text and RCDATA openers / formatting / 260 distinct unknown start or end tags to overflow the handler caches ...), completed, aborted by a strict-mode ParseError, or aborted by the source raising at the 2nd or 3rd read; second use B = one of 28 state-sensitive documents / fragments; all by symbolic index, run concretely after the fork on etree and dom",
    "the per-phase handler caches are live (no bypass); only MethodDispatcher lookup is the linear-scan substitute",
    "any state an aborted parse can leave is assumed to be an instance of the states reached by these A runs (abort points: first recorded error; after the first / second chunk)",
]
OUTSIDE = ["THREAD INTERLEAVINGS: CrossHair has no scheduler model - NOT APPLICABLE dimension (nothing is claimed about concurrent parses)", "A / B outside the catalogues; tree walker objects (they hold no state besides the tree)"]

def obligations(tier):
    from harness import parsecommon as pc
    q = tier == "quick"
    T = 300 if q else 1800
    obs = [Ob("C12.serializer-reuse", "crosshair", "harness.C12:serializer_reuse", T, bounds="7 x 7 documents, first serialize() abandoned after 0..12 chunks or aborted by a strict SerializeError, optional-tag omission on/off",
              encodes=["html5lib/serializer.py:HTMLSerializer.serialize", "html5lib/serializer.py:HTMLSerializer.render"])]
    obs.append(Ob("C12.reentrant-module-api", "crosshair", "harness.C12:reentrant", T, bounds="28 x 28 documents / fragments: the input source of one html5lib.parse() call runs another html5lib.parse()/parseFragment() from inside read(); both results equal the standalone ones; etree and dom",
                  encodes=["html5lib/html5parser.py:parse", "html5lib/html5parser.py:parseFragment"]))
    ctxs = list(range(len(pc.CONTEXTS)))
    if q:
        ctxs = ctxs[::6]
    for c in ctxs:
        prefix, cont = pc.CONTEXTS[c]
        obs.append(Ob("C12.reuse/ctx%02d" % c, "crosshair", "harness.C12:reuse", T, param={"actx": c},
                      bounds="A = context %r%s + 39 tokens x {completed, strict abort, source fails at read 2, at read 3}; B = 28 documents / fragments; etree and dom" % (prefix, " (fragment in %r)" % cont if cont else ""),
                      encodes=["html5lib/html5parser.py:HTMLParser._parse", "html5lib/html5parser.py:HTMLParser.reset", "html5lib/html5parser.py:Phase.processStartTag", "html5lib/html5parser.py:Phase.processEndTag", "html5lib/html5parser.py:InTableTextPhase", "html5lib/html5parser.py:InBodyPhase.processSpaceCharacters*", "html5lib/treebuilders/base.py:TreeBuilder.reset"]))
    return obs
