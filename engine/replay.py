"""Concrete replay of one case in a plain interpreter (no CrossHair tracing).

usage: replay.py <module> <function> <args-repr|@file> [--trace]
prints one line:  REPLAY HOLDS | REPLAY FAILS <reason>
exit 0 = holds, 1 = fails (property violated on the real code), 2 = replay machinery error
"""
import sys, os, ast, importlib, traceback, json
HERE = os.path.dirname(os.path.abspath(__file__))
sys.path.insert(0, os.path.dirname(HERE))

def main():
    modname, fnname, a = sys.argv[1], sys.argv[2], sys.argv[3]
    if a.startswith("@"):
        a = open(a[1:]).read()
    try:
        args = ast.literal_eval(a)
        mod = importlib.import_module(modname)
        fn = getattr(mod, fnname)
    except Exception:
        traceback.print_exc()
        print("REPLAY ERROR cannot load")
        return 2
    reached = set()
    if "--trace" in sys.argv:
        root = os.path.realpath("/repo/html5lib")
        def prof(frame, event, arg):
            if event == "call":
                fnm = frame.f_code.co_filename
                if fnm.startswith(root):
                    reached.add(os.path.relpath(fnm, "/repo") + ":" + getattr(frame.f_code, "co_qualname", frame.f_code.co_name))
        sys.setprofile(prof)
    try:
        ok = fn(**args)
        sys.setprofile(None)
    except Exception as e:
        sys.setprofile(None)
        tb = traceback.format_exc()
        print(tb)
        print("REPLAY FAILS exception %s: %s" % (type(e).__name__, str(e)[:300]))
        if reached:
            print("@@REACHED@@" + json.dumps(sorted(reached)))
        return 1
    if reached:
        print("@@REACHED@@" + json.dumps(sorted(reached)))
    if ok:
        print("REPLAY HOLDS")
        return 0
    print("REPLAY FAILS postcondition false")
    return 1

if __name__ == "__main__":
    sys.exit(main())
