"""re2z3 — translate the compiled regular expressions found in /repo (read from the live objects at
check time) into z3 terms.

Two targets:
  * to_re(pattern)            -> z3 regular expression over z3 Strings (language questions on unbounded strings)
  * class_pred(items, c)      -> z3 Bool over an Int code point c (character-class questions, full 0..0x10FFFF)

Only the constructs that occur in html5lib's patterns are supported; anything else raises
Unsupported, which the calling obligation reports as INCONCLUSIVE (never silently dropped).
z3's string theory has characters 0..0x2FFFF; ranges are clipped there and the clipping is reported
by `clipped` so obligations can state it.
"""
import re
import re._parser as sp
import re._constants as sc
import z3

Z3_MAXCHAR = 0x2FFFF


class Unsupported(Exception):
    pass


_cat_cache = {}

def category_ranges(cat):
    """code point ranges matched by a regex category (\\s \\d \\w and negations), by brute force on `re` itself"""
    name = str(cat)
    if name in _cat_cache:
        return _cat_cache[name]
    esc = {"CATEGORY_SPACE": r"\s", "CATEGORY_NOT_SPACE": r"\S", "CATEGORY_DIGIT": r"\d", "CATEGORY_NOT_DIGIT": r"\D",
           "CATEGORY_WORD": r"\w", "CATEGORY_NOT_WORD": r"\W"}.get(name)
    if esc is None:
        raise Unsupported(name)
    rx = re.compile(esc)
    rs, start = [], None
    for cp in range(0x110000):
        m = rx.match(chr(cp)) is not None
        if m and start is None:
            start = cp
        elif not m and start is not None:
            rs.append((start, cp - 1))
            start = None
    if start is not None:
        rs.append((start, 0x10FFFF))
    _cat_cache[name] = rs
    return rs


def class_ranges(items):
    """-> (negated, [(lo, hi), ...]) for the items of an IN node"""
    neg = False
    rs = []
    for op, av in items:
        if op is sc.NEGATE:
            neg = True
        elif op is sc.LITERAL:
            rs.append((av, av))
        elif op is sc.RANGE:
            rs.append((av[0], av[1]))
        elif op is sc.CATEGORY:
            rs.extend(category_ranges(av))
        else:
            raise Unsupported(str(op))
    return neg, rs


def class_pred(items, c):
    neg, rs = class_ranges(items)
    p = z3.Or([z3.And(c >= lo, c <= hi) if lo != hi else c == lo for lo, hi in rs]) if rs else z3.BoolVal(False)
    return z3.Not(p) if neg else p


def py_class_pred(items):
    neg, rs = class_ranges(items)
    def f(cp):
        r = any(lo <= cp <= hi for lo, hi in rs)
        return (not r) if neg else r
    return f


class Translator:
    def __init__(self, flags=0):
        self.flags = flags
        self.clipped = False
        self.allow_inner_end = False
        self.overapprox = False
        self.S = z3.StringSort()
        self.R = z3.ReSort(self.S)

    def anychar(self):
        return z3.AllChar(self.R)

    def _rng(self, lo, hi):
        if lo > Z3_MAXCHAR:
            self.clipped = True
            return None
        if hi > Z3_MAXCHAR:
            self.clipped = True
            hi = Z3_MAXCHAR
        return z3.Range(z3.StringVal(chr(lo)) if False else _chr(lo), _chr(hi))

    def cls(self, items):
        neg, rs = class_ranges(items)
        parts = [r for r in (self._rng(lo, hi) for lo, hi in rs) if r is not None]
        if not parts:
            u = z3.Empty(self.R)
        elif len(parts) == 1:
            u = parts[0]
        else:
            u = z3.Union(*parts)
        if neg:
            return z3.Intersect(self.anychar(), z3.Complement(u))
        return u

    def lit(self, cp):
        if self.flags & re.IGNORECASE:
            ch = chr(cp)
            if cp > 127:
                raise Unsupported("IGNORECASE on non-ASCII literal")
            if ch.lower() != ch.upper():
                return z3.Union(z3.Re(_sv(ch.lower())), z3.Re(_sv(ch.upper())))
        if cp > Z3_MAXCHAR:
            self.clipped = True
            return z3.Empty(self.R)
        return z3.Re(_sv(chr(cp)))

    def seq(self, parsed):
        parts = [self.node(op, av) for op, av in parsed]
        parts = [p for p in parts if p is not None]
        if not parts:
            return z3.Re(z3.StringVal(""))
        if len(parts) == 1:
            return parts[0]
        return z3.Concat(*parts)

    def node(self, op, av):
        if op is sc.LITERAL:
            return self.lit(av)
        if op is sc.NOT_LITERAL:
            return z3.Intersect(self.anychar(), z3.Complement(self.lit(av)))
        if op is sc.ANY:
            if self.flags & re.DOTALL:
                return self.anychar()
            return z3.Intersect(self.anychar(), z3.Complement(z3.Re(_sv("\n"))))
        if op is sc.IN:
            if self.flags & re.IGNORECASE:
                # expand ASCII letters in the class
                items = list(av)
                extra = []
                for o, a in items:
                    if o is sc.LITERAL and a < 128 and chr(a).isalpha():
                        extra.append((sc.LITERAL, ord(chr(a).swapcase())))
                    elif o is sc.RANGE:
                        for cp in range(a[0], min(a[1], 127) + 1):
                            if chr(cp).isalpha():
                                extra.append((sc.LITERAL, ord(chr(cp).swapcase())))
                av = items + extra
            return self.cls(av)
        if op is sc.BRANCH:
            alts = [self.seq(x) for x in av[1]]
            return z3.Union(*alts) if len(alts) > 1 else alts[0]
        if op is sc.SUBPATTERN:
            return self.seq(av[3])
        if op in (sc.MAX_REPEAT, sc.MIN_REPEAT):
            lo, hi, sub = av
            r = self.seq(sub)
            if hi is sc.MAXREPEAT:
                if lo == 0:
                    return z3.Star(r)
                if lo == 1:
                    return z3.Plus(r)
                return z3.Concat(z3.Loop(r, lo, lo), z3.Star(r))
            if lo == 0 and hi == 1:
                return z3.Option(r)
            return z3.Loop(r, lo, hi)
        if op is sc.AT:
            if av in (sc.AT_END, sc.AT_END_STRING) and self.allow_inner_end:
                # `$` inside a group: over-approximated by the empty string (the translated language is a SUPERSET);
                # sound for emptiness (unsat) results, a sat result must be confirmed by replay
                self.overapprox = True
                return z3.Re(z3.StringVal(""))
            raise Unsupported("anchor inside pattern: %s" % av)
        raise Unsupported(str(op))


def _sv(s):
    return z3.StringVal(s)

def _chr(cp):
    return z3.StringVal(chr(cp))


def parse(pattern, flags=0):
    if hasattr(pattern, "pattern"):
        flags = pattern.flags
        pattern = pattern.pattern
    p = sp.parse(pattern, flags)
    return list(p), (flags | p.state.flags)


def to_re(pattern, flags=0, allow_inner_end=False):
    """z3 Re for the language of FULL matches of `pattern` (leading ^ / trailing $ stripped and reported).
    returns (re, info) with info = {anchored_start, anchored_end, clipped}"""
    parsed, flags = parse(pattern, flags)
    a_start = a_end = False
    if parsed and parsed[0][0] is sc.AT and parsed[0][1] in (sc.AT_BEGINNING, sc.AT_BEGINNING_STRING):
        a_start = True
        parsed = parsed[1:]
    if parsed and parsed[-1][0] is sc.AT and parsed[-1][1] in (sc.AT_END_STRING,):
        a_end = True
        parsed = parsed[:-1]
    elif parsed and parsed[-1][0] is sc.AT and parsed[-1][1] is sc.AT_END:
        # `$` also matches before a trailing newline; callers that care must handle it
        a_end = "dollar"
        parsed = parsed[:-1]
    tr = Translator(flags)
    tr.allow_inner_end = allow_inner_end
    r = tr.seq(parsed)
    return r, {"anchored_start": a_start, "anchored_end": a_end, "clipped": tr.clipped, "flags": flags, "overapprox": tr.overapprox}


def contains(r):
    """language of strings that contain a match of r (re.search semantics)"""
    R = z3.ReSort(z3.StringSort())
    return z3.Concat(z3.Star(z3.AllChar(R)), r, z3.Star(z3.AllChar(R)))


def single_class(pattern):
    """if pattern is one character class, optionally repeated (`[..]`, `[..]+`, `[..]*`): -> (items, repeat)"""
    parsed, flags = parse(pattern)
    if len(parsed) != 1:
        raise Unsupported("not a single class")
    op, av = parsed[0]
    rep = None
    if op in (sc.MAX_REPEAT, sc.MIN_REPEAT):
        rep = (av[0], av[1])
        sub = list(av[2])
        if len(sub) != 1:
            raise Unsupported("not a single class")
        op, av = sub[0]
    if op is sc.LITERAL:
        return [(sc.LITERAL, av)], rep
    if op is not sc.IN:
        raise Unsupported("not a class")
    return list(av), rep


def validate(pattern, samples, mode="fullmatch"):
    """differential validation of the translation: python `re` vs z3 on concrete strings.
    returns the list of disagreeing samples (must be empty)"""
    r, info = to_re(pattern)
    rx = re.compile(pattern) if not hasattr(pattern, "pattern") else pattern
    bad = []
    for s in samples:
        if any(ord(ch) > Z3_MAXCHAR for ch in s):
            continue
        if mode == "fullmatch":
            want = rx.fullmatch(s) is not None
            got = z3.is_true(z3.simplify(z3.InRe(z3.StringVal(s), r)))
        else:
            want = rx.search(s) is not None
            got = z3.is_true(z3.simplify(z3.InRe(z3.StringVal(s), contains(r))))
        if want != got:
            bad.append(s)
    return bad


# ---------------------------------------------------------------- alphabet compression (minterms)
def _atomic_sets(parsed, flags, acc):
    """collect every character set a pattern can distinguish, as lists of (lo, hi) ranges"""
    for op, av in parsed:
        if op is sc.LITERAL or op is sc.NOT_LITERAL:
            cps = [av]
            if flags & re.IGNORECASE and av < 128 and chr(av).isalpha():
                cps.append(ord(chr(av).swapcase()))
            for cp in cps:
                acc.append([(cp, cp)])
        elif op is sc.ANY:
            acc.append([(10, 10)])
        elif op is sc.IN:
            neg, rs = class_ranges(av)
            acc.append(list(rs))
            if flags & re.IGNORECASE:
                for lo, hi in rs:
                    for cp in range(lo, min(hi, 127) + 1):
                        if chr(cp).isalpha():
                            acc.append([(ord(chr(cp).swapcase()),) * 2])
        elif op is sc.BRANCH:
            for x in av[1]:
                _atomic_sets(x, flags, acc)
        elif op is sc.SUBPATTERN:
            _atomic_sets(av[3], flags, acc)
        elif op in (sc.MAX_REPEAT, sc.MIN_REPEAT):
            _atomic_sets(av[2], flags, acc)


def minterm_representatives(patterns, extra_sets=()):
    """patterns: list of (pattern, flags).  Returns a function rep(cp) -> representative code point of cp's minterm
    (characters no pattern and no extra set can tell apart), and the sorted list of representatives."""
    acc = [list(s) for s in extra_sets]
    for pat, flags in patterns:
        parsed, fl = parse(pat, flags)
        _atomic_sets(parsed, fl, acc)
    bounds = set([0, 0x110000])
    for rs in acc:
        for lo, hi in rs:
            bounds.add(lo)
            bounds.add(hi + 1)
    bounds = sorted(b for b in bounds if 0 <= b <= 0x110000)
    import bisect as _b
    sets_sorted = []
    for rs in acc:
        rs = sorted(rs)
        sets_sorted.append(([r[0] for r in rs], rs))
    def member(i, cp):
        los, rs = sets_sorted[i]
        j = _b.bisect_right(los, cp) - 1
        while j >= 0:
            if rs[j][0] <= cp <= rs[j][1]:
                return True
            j -= 1
            if j >= 0 and rs[j][1] < cp and all(r[1] < cp for r in rs[:j + 1][-3:]):
                break
        return any(lo <= cp <= hi for lo, hi in rs) if j >= 0 else False
    sig2rep = {}
    interval_rep = []
    for k in range(len(bounds) - 1):
        cp = bounds[k]
        sig = tuple(any(lo <= cp <= hi for lo, hi in sets_sorted[i][1]) for i in range(len(acc)))
        if sig not in sig2rep:
            sig2rep[sig] = cp
        interval_rep.append(sig2rep[sig])
    starts = bounds[:-1]
    def rep(cp):
        return interval_rep[_b.bisect_right(starts, cp) - 1]
    return rep, sorted(set(interval_rep))


class CompressedTranslator(Translator):
    """translate over the compressed alphabet: every class becomes the union of the representatives it contains"""
    def __init__(self, flags, reps):
        Translator.__init__(self, flags)
        self.reps = [r for r in reps if r <= Z3_MAXCHAR]
        if len(self.reps) != len(reps):
            self.clipped = True

    def _union(self, cps):
        cps = sorted(set(cps))
        if not cps:
            return z3.Empty(self.R)
        parts = [z3.Re(_sv(chr(c))) for c in cps]
        return z3.Union(*parts) if len(parts) > 1 else parts[0]

    def anychar(self):
        return self._union(self.reps)

    def cls(self, items):
        neg, rs = class_ranges(items)
        inside = [c for c in self.reps if any(lo <= c <= hi for lo, hi in rs)]
        if neg:
            inside = [c for c in self.reps if c not in set(inside)]
        return self._union(inside)

    def lit(self, cp):
        cps = [cp]
        if self.flags & re.IGNORECASE and cp < 128 and chr(cp).isalpha():
            cps.append(ord(chr(cp).swapcase()))
        return self._union([c for c in cps if c in set(self.reps)])

    def node(self, op, av):
        if op is sc.NOT_LITERAL:
            return self._union([c for c in self.reps if c != av])
        if op is sc.ANY:
            return self._union([c for c in self.reps if (self.flags & re.DOTALL) or c != 10])
        return Translator.node(self, op, av)


def to_re_compressed(pattern, flags, reps, allow_inner_end=False):
    parsed, flags = parse(pattern, flags)
    a_start = a_end = False
    if parsed and parsed[0][0] is sc.AT and parsed[0][1] in (sc.AT_BEGINNING, sc.AT_BEGINNING_STRING):
        a_start = True
        parsed = parsed[1:]
    if parsed and parsed[-1][0] is sc.AT and parsed[-1][1] in (sc.AT_END_STRING, sc.AT_END):
        a_end = True
        parsed = parsed[:-1]
    tr = CompressedTranslator(flags, reps)
    tr.allow_inner_end = allow_inner_end
    r = tr.seq(parsed)
    return r, tr, {"anchored_start": a_start, "anchored_end": a_end, "clipped": tr.clipped, "overapprox": tr.overapprox}
