"""Check driver: runs every obligation of one property, replays counterexamples on the real
code, applies the known-findings file, writes evidence, prints the verdict lines.

usage: python -m engine.runner <PROPERTY> [--tier quick|thorough] [--only <substr>] [--jobs N] [--debug]
exit:  0 nothing violated among everything decided
       1 at least one replayed VIOLATION (line `VIOLATION property=<id> replay=<path>`)
       3 harness error (vacuous obligation, non-reproducing counterexample, worker crash)
"""
import sys, os, json, time, importlib, subprocess, ast, argparse, random, shlex
from concurrent.futures import ThreadPoolExecutor
from dataclasses import dataclass, field

ROOT = os.path.dirname(os.path.dirname(os.path.abspath(__file__)))
PY = os.path.join(ROOT, ".venv", "bin", "python")
sys.path.insert(0, ROOT)
from engine import findings  # noqa


@dataclass
class Ob:
    id: str
    engine: str            # "crosshair" | "z3"
    target: str            # "module:function"
    timeout: float = 60.0
    param: dict = field(default_factory=dict)
    bounds: str = ""
    encodes: list = field(default_factory=list)   # functions of /repo that are executed symbolically / encoded
    replay: str = None     # "module:function" used for concrete replay (default: the harness function itself)
    expect_twin: bool = True


def _run(cmd, env, wall):
    t0 = time.time()
    try:
        p = subprocess.run(cmd, env=env, capture_output=True, text=True, timeout=wall, cwd=ROOT)
        out, err, rc = p.stdout, p.stderr, p.returncode
    except subprocess.TimeoutExpired as e:
        out = (e.stdout or b"").decode("utf8", "replace") if isinstance(e.stdout, bytes) else (e.stdout or "")
        err = "WALL TIMEOUT"
        rc = -9
    return out, err, rc, time.time() - t0


def run_worker(ob, debug=False):
    mod, fn = ob.target.split(":")
    env = dict(os.environ)
    env["VERIF_PARAM"] = json.dumps(ob.param)
    env["PYTHONHASHSEED"] = "0"
    env.setdefault("HTML5LIB_VERIF", "1")
    if ob.engine == "crosshair":
        cmd = [PY, os.path.join(ROOT, "engine", "ch_worker.py"), mod, fn, str(ob.timeout)]
        if debug:
            cmd.append("--debug")
        wall = ob.timeout * 2.5 + 120
    else:
        cmd = [PY, os.path.join(ROOT, "engine", "z3_worker.py"), mod, fn]
        wall = ob.timeout + 60
    out, err, rc, dt = _run(cmd, env, wall)
    res = None
    for line in out.splitlines():
        if line.startswith("@@RESULT@@"):
            res = json.loads(line[len("@@RESULT@@"):])
    if res is None:
        res = {"error": "worker gave no result (rc=%s): %s" % (rc, (err or "")[-1500:])}
    res["wall_s"] = round(dt, 2)
    if debug:
        with open(os.path.join(ROOT, "evidence", "debug_%s.log" % ob.id.replace("/", "_")), "w") as f:
            f.write(err)
    return res


def run_replay(target, args_repr, param, trace=False, ignore_known=False):
    mod, fn = target.split(":")
    env = dict(os.environ)
    env["VERIF_PARAM"] = json.dumps(param)
    if ignore_known:
        env["VERIF_IGNORE_KNOWN"] = "1"     # witness / counterexample replays never see the known-finding exclusions
    env.setdefault("HTML5LIB_VERIF", "1")
    cmd = [PY, os.path.join(ROOT, "engine", "replay.py"), mod, fn, args_repr]
    if trace:
        cmd.append("--trace")
    out, err, rc, dt = _run(cmd, env, 300)
    reached = []
    verdict = "ERROR"
    for line in out.splitlines():
        if line.startswith("@@REACHED@@"):
            reached = json.loads(line[len("@@REACHED@@"):])
        if line.startswith("REPLAY "):
            verdict = line[7:]
    return verdict, reached, out[-3000:] + err[-1500:]


def write_replay_file(pid, ob, args_repr, detail, target):
    mod, fn = target.split(":")
    path = os.path.join(ROOT, "replays", "%s.py" % ob.id.replace("/", "_"))
    os.makedirs(os.path.dirname(path), exist_ok=True)
    with open(path, "w") as f:
        f.write("#!%s\n" % PY)
        f.write('"""Replay of a solver counterexample for property %s, obligation %s.\n\n%s\n\nRuns the case concretely (no CrossHair) against /repo; exit 1 = property violated."""\n' % (pid, ob.id, detail.replace('"""', "'''")[:1500]))
        f.write("import sys, os\nsys.path.insert(0, %r)\nos.environ['VERIF_PARAM'] = %r\n" % (ROOT, json.dumps(ob.param)))
        f.write("os.environ.setdefault('HTML5LIB_VERIF', '1')\nos.environ['VERIF_IGNORE_KNOWN'] = '1'\n")
        f.write("from %s import %s as case\n" % (mod, fn))
        f.write("args = %s\n" % args_repr)
        f.write("ok = case(**args)\nprint('HOLDS' if ok else 'FAILS: property %s violated for', args)\nsys.exit(0 if ok else 1)\n" % pid)
    os.chmod(path, 0o755)
    return path


def signature_matches(finding, ob, args_repr):
    """Does a counterexample belong to a listed known finding?"""
    import fnmatch
    if not any(fnmatch.fnmatch(ob.id, pat) for pat in finding.get("obligations", [])):
        return False
    sig = finding.get("signature")
    if not sig:
        return False
    mod, fn = sig.split(":")
    env = dict(os.environ)
    env["VERIF_PARAM"] = json.dumps(ob.param)
    env["VERIF_IGNORE_KNOWN"] = "1"
    out, err, rc, dt = _run([PY, os.path.join(ROOT, "engine", "replay.py"), mod, fn, args_repr], env, 120)
    return "REPLAY HOLDS" in out     # signature predicate returned True


def main():
    ap = argparse.ArgumentParser()
    ap.add_argument("prop")
    ap.add_argument("--tier", default=os.environ.get("VERIF_TIER", "quick"))
    ap.add_argument("--only", default=None)
    ap.add_argument("--jobs", type=int, default=int(os.environ.get("VERIF_JOBS", "16")))
    ap.add_argument("--debug", action="store_true")
    ap.add_argument("--no-evidence", action="store_true")
    a = ap.parse_args()
    pid, tier = a.prop, a.tier
    if tier not in ("quick", "thorough"):
        tier = "quick"
    seed = int(os.environ.get("VERIF_SEED", "0") or 0)
    t0 = time.time()
    pm = importlib.import_module("props.%s" % pid)
    obs = pm.obligations(tier)
    if a.only:
        obs = [o for o in obs if a.only in o.id]
    random.Random(seed).shuffle(obs)
    # expensive first for better packing
    obs.sort(key=lambda o: -o.timeout)

    violations, known_lines, harness_errors, inconclusive = [], [], [], []
    records = []

    # --- known findings: replay the recorded witness on the current tree
    kf = findings.for_property(pid)
    for f in kf:
        if f["status"] != "known":
            continue
        w = f["witness"]
        verdict, _, log = run_replay(w["replay"], repr(w["args"]), w.get("param", {}), ignore_known=True)
        f["_reproduces"] = verdict.startswith("FAILS")
        if f["_reproduces"]:
            line = "KNOWN-FINDING: property=%s %s [%s]" % (pid, f["text"], f["id"])
            print(line, flush=True)
            known_lines.append(line)
        else:
            print("NOTE: known finding %s no longer reproduces on this tree (%s)" % (f["id"], verdict), flush=True)

    def do(ob):
        res = run_worker(ob, a.debug)
        rec = {"id": ob.id, "engine": ob.engine, "target": ob.target, "param": ob.param, "bounds": ob.bounds,
               "functions_encoded": ob.encodes, "timeout_s": ob.timeout, "wall_s": res.get("wall_s")}
        if "error" in res or "main" not in res:
            rec["status"] = "HARNESS-ERROR"
            rec["detail"] = res.get("error", "no main result")[-1500:]
            return ob, rec
        m, tw = res["main"], res.get("twin", {})
        rec.update(status=m["status"], paths=m.get("paths", 0), solver_cpu_s=m.get("cpu_s"), detail=m.get("detail", "")[:1500],
                   twin_reached=tw.get("reached"), sample=tw.get("args"))
        if m.get("extra"):
            rec["extra"] = m["extra"]
        target = ob.replay or ob.target
        if m["status"] == "COUNTEREXAMPLE":
            if not m.get("args"):
                rec["status"] = "HARNESS-ERROR"
                rec["detail"] = "counterexample without reproducible arguments: " + rec["detail"]
                return ob, rec
            rec["counterexample"] = m["args"]
            verdict, _, log = run_replay(target, m["args"], ob.param, ignore_known=True)
            rec["replay_verdict"] = verdict
            if verdict.startswith("FAILS"):
                matched = None
                for f in kf:
                    if f["status"] == "known" and signature_matches(f, ob, m["args"]):
                        matched = f
                        break
                if matched:
                    rec["status"] = "KNOWN-FINDING"
                    rec["finding"] = matched["id"]
                else:
                    rec["status"] = "VIOLATION"
                    rec["replay_file"] = write_replay_file(pid, ob, m["args"], m.get("detail", "") + "\n" + m.get("traceback", ""), target)
            elif verdict.startswith("HOLDS"):
                rec["status"] = "HARNESS-ERROR"
                rec["detail"] = "counterexample does not reproduce concretely (encoding/stub wrong?): " + rec["detail"]
            else:
                rec["status"] = "HARNESS-ERROR"
                rec["detail"] = "replay machinery error: " + log[-800:]
        elif m["status"] == "CONFIRMED":
            if ob.expect_twin and not tw.get("reached"):
                rec["status"] = "VACUOUS"
                rec["detail"] = "reachability twin not refuted: " + str(tw.get("detail"))[:500]
            elif tw.get("args") and ob.engine == "crosshair":
                # one concrete case of this obligation, run outside CrossHair, to list the /repo functions reached
                v, reached, _ = run_replay(ob.target, tw["args"], ob.param, trace=True)
                rec["functions_reached"] = reached
                rec["sample_replay"] = v
                if v.startswith("FAILS"):
                    # the solver said "holds on all paths" but a concrete run disagrees: never trust silently
                    rec["status"] = "HARNESS-ERROR"
                    rec["detail"] = "confirmed symbolically but concrete sample fails: " + str(tw["args"])
        return ob, rec

    with ThreadPoolExecutor(max_workers=max(1, a.jobs)) as ex:
        for ob, rec in ex.map(do, obs):
            records.append(rec)
            st = rec["status"]
            print("[%s] %-44s %-9s %-14s paths=%-5s cpu=%-7s wall=%-6s twin=%s %s" % (
                pid, ob.id, ob.engine, st, rec.get("paths", "-"), rec.get("solver_cpu_s", "-"), rec.get("wall_s", "-"),
                rec.get("twin_reached", "-"), ("" if st == "CONFIRMED" else "| " + str(rec.get("detail", ""))[:400].replace("\n", " "))), flush=True)
            if st == "VIOLATION":
                violations.append(rec)
                print("VIOLATION property=%s replay=%s" % (pid, rec["replay_file"]), flush=True)
                print("  counterexample: %s" % rec["counterexample"][:500], flush=True)
            elif st == "KNOWN-FINDING":
                line = "KNOWN-FINDING: property=%s %s [%s] (solver re-found it: %s)" % (pid, next(f["text"] for f in kf if f["id"] == rec["finding"]), rec["finding"], rec["counterexample"][:200])
                if not any(rec["finding"] in l for l in known_lines):
                    print(line, flush=True)
                    known_lines.append(line)
            elif st in ("HARNESS-ERROR", "VACUOUS"):
                harness_errors.append(rec)
            elif st == "INCONCLUSIVE":
                inconclusive.append(rec)

    wall = time.time() - t0
    confirmed = [r for r in records if r["status"] == "CONFIRMED"]
    nontrivial = [r for r in confirmed if (r.get("paths") or 0) >= 2]
    solver_cpu = sum((r.get("solver_cpu_s") or 0) for r in records)
    evidence = {
        "property_id": pid, "tier": tier, "seed": seed, "level": "model_checking",
        "coverage": {
            "evaluations": int(sum((r.get("paths") or 0) for r in records)),
            "distinct_nontrivial": len(nontrivial),
            "rule": "one evaluation = one symbolic execution path closed by z3 (CrossHair) or one solver query (direct encodings); "
                    "an obligation is non-trivial when it was CONFIRMED over all paths with >= 2 feasible paths/queries and its reachability twin was refuted; distinct by obligation id",
            "obligations": len(records), "discharged": len(confirmed),
            "inconclusive": [r["id"] for r in inconclusive],
            "harness_errors": [r["id"] for r in harness_errors],
            "known_findings_reported": known_lines,
            "solver_cpu_s": round(solver_cpu, 1),
            "engine": "CrossHair 0.0.110 (symbolic execution of the real /repo functions, z3 5.1.0) + direct z3 encodings generated from live /repo objects",
            "outside_the_claim": getattr(pm, "OUTSIDE", []),
            "samples": [{"obligation": r["id"], "bounds": r["bounds"], "status": r["status"], "paths": r.get("paths"), "example_input": r.get("sample"),
                         "functions_encoded": r.get("functions_encoded")} for r in records[:12]],
            "obligation_records": records,
        },
        "assumptions": getattr(pm, "ASSUMPTIONS", []),
        "wall_s": round(wall, 1), "violations": len(violations),
    }
    if not a.no_evidence and not a.only:
        os.makedirs(os.path.join(ROOT, "evidence"), exist_ok=True)
        with open(os.path.join(ROOT, "evidence", "%s.json" % pid), "w") as f:
            json.dump(evidence, f, indent=1, default=str)
        if tier == "thorough":
            os.makedirs(os.path.join(ROOT, "evidence", "thorough"), exist_ok=True)
            with open(os.path.join(ROOT, "evidence", "thorough", "%s.json" % pid), "w") as f:
                json.dump(evidence, f, indent=1, default=str)
    print("SUMMARY property=%s tier=%s obligations=%d confirmed=%d violations=%d known=%d inconclusive=%d harness_errors=%d paths=%d solver_cpu=%.0fs wall=%.0fs" % (
        pid, tier, len(records), len(confirmed), len(violations), len(known_lines), len(inconclusive), len(harness_errors),
        evidence["coverage"]["evaluations"], solver_cpu, wall), flush=True)
    for r in inconclusive:
        print("INCONCLUSIVE obligation=%s %s" % (r["id"], str(r.get("detail"))[:300].replace("\n", " ")))
    for r in harness_errors:
        print("HARNESS-ERROR obligation=%s %s" % (r["id"], str(r.get("detail"))[:600].replace("\n", " ")))
    if violations:
        return 1
    if harness_errors:
        return 3
    return 0


if __name__ == "__main__":
    sys.exit(main())
