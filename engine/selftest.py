"""Adapter plugin self-tests: each widened containment case has a must-refute and a must-confirm twin."""
import sys, os, json, subprocess
ROOT = os.path.dirname(os.path.dirname(os.path.abspath(__file__)))
PY = os.path.join(ROOT, ".venv", "bin", "python")
CASES = [("fs_refute", "COUNTEREXAMPLE"), ("fs_confirm", "CONFIRMED"), ("dict_refute", "COUNTEREXAMPLE"),
         ("dict_confirm", "CONFIRMED"), ("tuple_refute", "COUNTEREXAMPLE"), ("tuple_confirm", "CONFIRMED"),
         ("charset_confirm", "CONFIRMED"), ("charset_refute", "COUNTEREXAMPLE"), ("charset_long", "CONFIRMED")]
def main():
    bad = 0
    for fn, want in CASES:
        p = subprocess.run([PY, os.path.join(ROOT, "engine", "ch_worker.py"), "harness.selftest", fn, "30"], capture_output=True, text=True, cwd=ROOT)
        got = "?"
        for l in p.stdout.splitlines():
            if l.startswith("@@RESULT@@"):
                got = json.loads(l[10:]).get("main", {}).get("status")
        print("selftest %-14s want=%-14s got=%s" % (fn, want, got))
        bad += got != want
    return 3 if bad else 0
if __name__ == "__main__":
    sys.exit(main())
