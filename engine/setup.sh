#!/bin/sh
# Build the overlay venv (offline): /venv's site-packages + /repo on the path, crosshair-tool/z3/cvc5 from the wheelhouse.
set -e
V=/verif/.venv
if [ ! -x $V/bin/python ] || ! $V/bin/python -c "import crosshair, z3, html5lib" 2>/dev/null; then
  rm -rf $V
  /venv/bin/python -m venv $V
  SP=$V/lib/python3.12/site-packages
  echo "import site; site.addsitedir('/venv/lib/python3.12/site-packages')" > $SP/_verif_overlay.pth
  echo /repo > $SP/_verif_repo.pth
  PIP_NO_INDEX=1 $V/bin/pip install -q --no-index --find-links /opt/veriftools/wheels crosshair-tool cvc5 jsonschema >/dev/null 2>&1 || \
  PIP_NO_INDEX=1 $V/bin/pip install -q --no-index --find-links /opt/veriftools/wheels crosshair-tool
fi
$V/bin/python -c "import crosshair, z3, html5lib; assert html5lib.__file__.startswith('/repo/'), html5lib.__file__"
