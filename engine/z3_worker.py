"""Run ONE direct-solver obligation: a python callable that builds the encoding from the live
/repo objects, discharges its queries and returns a dict:
  {"status": "unsat"|"sat"|"unknown"|"error", "queries": int, "solver_s": float,
   "model": {...} (for sat: arguments for the replay function), "detail": str, ...}
usage: z3_worker.py <module> <function>
"""
import sys, os, json, time, importlib, traceback
HERE = os.path.dirname(os.path.abspath(__file__))
sys.path.insert(0, os.path.dirname(HERE))

def main():
    modname, fnname = sys.argv[1], sys.argv[2]
    t0 = time.time()
    out = {"module": modname, "function": fnname, "param": json.loads(os.environ.get("VERIF_PARAM", "{}"))}
    try:
        mod = importlib.import_module(modname)
        r = getattr(mod, fnname)()
        st = {"unsat": "CONFIRMED", "sat": "COUNTEREXAMPLE"}.get(r.get("status"), "INCONCLUSIVE")
        out["main"] = {"status": st, "detail": r.get("detail", ""), "paths": int(r.get("queries", 1)),
                       "args": repr(r["model"]) if r.get("model") is not None else None,
                       "cpu_s": r.get("solver_s"), "extra": {k: v for k, v in r.items() if k not in ("status", "model", "detail", "queries", "solver_s")}}
        out["twin"] = {"reached": bool(r.get("witness_ok", False)), "status": "n/a", "detail": r.get("witness_detail", ""), "args": r.get("witness_args") and repr(r["witness_args"]), "paths": 0}
    except BaseException as e:
        out["error"] = "".join(traceback.format_exception(type(e), e, e.__traceback__))[-4000:]
    out["wall_s"] = round(time.time() - t0, 2)
    sys.stdout.write("\n@@RESULT@@" + json.dumps(out) + "\n")

if __name__ == "__main__":
    main()
