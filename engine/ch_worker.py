"""Run ONE CrossHair obligation (and its reachability twin) and print a JSON verdict.

usage: ch_worker.py <module> <function> <per_condition_timeout_s> [--twin-only] [--debug]
env:   VERIF_PARAM   JSON object handed to the harness module (bounds, state names, ...)

The harness convention: the function carries PEP-316 `pre:` lines and a single
`post: _` (it returns True iff the property held on this input).  Any exception
escaping the function is a counterexample as well (CrossHair EXEC_ERR).
"""
import sys, os, json, time, importlib, traceback, collections

HERE = os.path.dirname(os.path.abspath(__file__))
sys.path.insert(0, os.path.dirname(HERE))

def main():
    modname, fnname, tmo = sys.argv[1], sys.argv[2], float(sys.argv[3])
    flags = sys.argv[4:]
    t0 = time.time()
    import crosshair.core_and_libs  # noqa: registers libimpl
    import crosshair.core as core
    from crosshair.core import analyze_function, run_checkables, ConditionCheckable
    from crosshair.options import AnalysisOptionSet
    from crosshair.statespace import MessageType, context_statespace
    from crosshair.tracers import NoTracing
    from crosshair.condition_parser import ConditionExpr, POSTCONDITION
    from dataclasses import replace
    import engine.chplugin  # noqa
    if "--debug" in flags:
        from crosshair.util import set_debug
        set_debug(True)

    CEX = []
    orig_mk = core.make_counterexample_message
    def mk(conditions, args, return_val=None):
        msg = orig_mk(conditions, args, return_val)
        try:
            with NoTracing():
                real = context_statespace().extra(core.LazyCreationRepr).deep_realize(args)
                CEX.append(dict(real.arguments))
        except Exception:
            CEX.append(None)
        return msg
    core.make_counterexample_message = mk

    mod = importlib.import_module(modname)
    fn = getattr(mod, fnname)
    out = {"module": modname, "function": fnname, "timeout": tmo,
           "param": json.loads(os.environ.get("VERIF_PARAM", "{}"))}

    def run(conds_post_false, timeout):
        CEX.clear()
        opts = AnalysisOptionSet(per_condition_timeout=timeout, report_all=True)
        checkables = analyze_function(fn, opts)
        res = {"status": "INCONCLUSIVE", "detail": "", "paths": 0, "args": None}
        if not checkables:
            res["detail"] = "no conditions found"
            return res
        msgs = []
        paths = 0
        for c in checkables:
            if not isinstance(c, ConditionCheckable):
                res["detail"] = "syntax error in contract: " + "; ".join(m.message for m in c.messages)
                return res
            c.options.stats = collections.Counter()
            if conds_post_false:
                post = c.conditions.post[0]
                c.conditions = replace(c.conditions, post=[ConditionExpr(
                    POSTCONDITION, (lambda vars: False), post.filename, post.line, "False")])
            t1 = time.process_time()
            msgs.extend(c.analyze())
            res["cpu_s"] = round(time.process_time() - t1, 2)
            paths += c.options.stats["num_paths"]
        res["paths"] = paths
        states = [m.state for m in msgs]
        res["messages"] = [(m.state.name, m.message[:2000]) for m in msgs]
        bad = [m for m in msgs if m.state in (MessageType.POST_FAIL, MessageType.EXEC_ERR, MessageType.POST_ERR, MessageType.PRE_INVALID if hasattr(MessageType, "PRE_INVALID") else MessageType.POST_ERR)]
        if bad:
            res["status"] = "COUNTEREXAMPLE"
            res["detail"] = bad[0].state.name + ": " + bad[0].message[:2000]
            if bad[0].traceback:
                res["traceback"] = bad[0].traceback[-3000:]
            args = next((a for a in CEX if a is not None), None)
            if args is not None:
                try:
                    res["args"] = repr(args)
                    import ast
                    ast.literal_eval(res["args"])
                except Exception:
                    res["args_unparseable"] = True
        elif states and all(s == MessageType.CONFIRMED for s in states):
            res["status"] = "CONFIRMED"
        else:
            res["status"] = "INCONCLUSIVE"
            res["detail"] = "; ".join(m.state.name + ": " + m.message[:300] for m in msgs)
        return res

    try:
        if "--twin-only" not in flags:
            out["main"] = run(False, tmo)
        # reachability twin: same preconditions, post False -> must be refuted
        tw = run(True, min(tmo, 60.0))
        out["twin"] = {"reached": tw["status"] == "COUNTEREXAMPLE" and (tw["detail"].startswith("POST_FAIL")),
                       "status": tw["status"], "detail": tw["detail"][:500], "args": tw.get("args"), "paths": tw["paths"]}
    except BaseException as e:  # worker must always answer
        out["error"] = "".join(traceback.format_exception(type(e), e, e.__traceback__))[-4000:]
    out["wall_s"] = round(time.time() - t0, 2)
    sys.stdout.write("\n@@RESULT@@" + json.dumps(out) + "\n")

if __name__ == "__main__":
    main()
