"""Known-findings file access (read-only at run time)."""
import json, os
_PATH = os.path.join(os.path.dirname(os.path.dirname(os.path.abspath(__file__))), "known_findings.json")
_cache = None

def load():
    global _cache
    if _cache is None:
        try:
            with open(_PATH) as f:
                _cache = json.load(f)["findings"]
        except FileNotFoundError:
            _cache = []
    return _cache

def for_property(pid):
    return [f for f in load() if f["property"] == pid]

def active(fid):
    """True iff finding `fid` is listed with status 'known' (then harnesses add
    `pre: not signature(args)` so that only *other* violations are searched)."""
    if os.environ.get("VERIF_IGNORE_KNOWN") == "1":
        return False
    for f in load():
        if f["id"] == fid:
            return f["status"] == "known"
    return False
