"""CrossHair adapter: widen the `in` interceptor.

CrossHair 0.0.110 already swaps a concrete `set`/`dict` for its own linear-scan
containers (LinearSet / SimpleDict) when a *symbolic* item is tested with `in`.
html5lib tests membership in `frozenset`s, in `dict` subclasses and with tuple
items that merely *contain* a symbolic component ((namespace, name) in
scopingElements).  Each of those would hash the symbolic value, which makes
CrossHair realise (concretise) it and destroys exhaustiveness.  This module only
widens the trigger; the replacement containers are CrossHair's own.
"""
from crosshair import opcode_intercept as oi


def _install(oi=oi):
    if getattr(oi.ContainmentInterceptor, "_verif_widened", False):
        return
    orig = oi.ContainmentInterceptor.trace_op

    def has_sym(x, oi=oi):
        if isinstance(x, oi.CrossHairValue):
            return True
        if type(x) is tuple:
            for y in x:
                if isinstance(y, oi.CrossHairValue) or (type(y) is tuple and has_sym(y)):
                    return True
        return False

    def trace_op(self, frame, codeobj, codenum, oi=oi, orig=orig, has_sym=has_sym):
        item = oi.frame_stack_read(frame, -2)
        if not has_sym(item):
            return
        container = oi.frame_stack_read(frame, -1)
        ct = type(container)
        if ct is frozenset or ct is set:
            oi.frame_stack_write(frame, -1, oi.ShellMutableSet(oi.LinearSet(container)))
            return
        if isinstance(container, dict):
            oi.frame_stack_write(frame, -1, oi.SimpleDict(list(dict.items(container))))
            return
        if isinstance(item, oi.CrossHairValue):
            return orig(self, frame, codeobj, codenum)

    oi.ContainmentInterceptor.trace_op = trace_op
    oi.ContainmentInterceptor._verif_widened = True


_install()
