"""CrossHair adapter: widen the `in` interceptor.

CrossHair 0.0.110 already swaps a concrete `set`/`dict` for its own linear-scan
containers (LinearSet / SimpleDict) when a *symbolic* item is tested with `in`.
html5lib tests membership in `frozenset`s, in `dict` subclasses and with tuple
items that merely *contain* a symbolic component ((namespace, name) in
scopingElements).  Each of those would hash the symbolic value, which makes
CrossHair realise (concretise) it and destroys exhaustiveness.  This module only
widens the trigger; the replacement containers are CrossHair's own.
"""
from crosshair import opcode_intercept as oi


import z3 as _z3
from crosshair.libimpl import builtinslib as _bl
from crosshair.tracers import NoTracing as _NoTracing


class CharRangeSet:
    """Replacement for a set/frozenset whose members are all 1-character strings (asciiLetters, spaceCharacters,
    digits, hexDigits ...) when a SYMBOLIC character is tested with `in`: membership becomes ONE symbolic boolean
    (a disjunction of code-point ranges) instead of one fork per element (LinearSet), i.e. 2 paths instead of 52."""
    def __init__(self, orig):
        self.orig = orig
        cps = sorted(ord(c) for c in orig)
        rs = []
        for cp in cps:
            if rs and rs[-1][1] == cp - 1:
                rs[-1][1] = cp
            else:
                rs.append([cp, cp])
        self.ranges = rs

    def __contains__(self, item):
        if not isinstance(item, str):
            return False
        if len(item) != 1:
            return False
        cp = ord(item)
        with _NoTracing():
            if isinstance(cp, _bl.SymbolicInt):
                v = cp.var
                return _bl.SymbolicBool(_z3.Or(*[_z3.And(v >= lo, v <= hi) if lo != hi else v == lo for lo, hi in self.ranges]))
        return chr(cp) in self.orig

    def __iter__(self):
        return iter(self.orig)

    def __len__(self):
        return len(self.orig)


_charset_cache = {}


def _install(oi=oi):
    if getattr(oi.ContainmentInterceptor, "_verif_widened", False):
        return
    orig = oi.ContainmentInterceptor.trace_op

    def has_sym(x, oi=oi):
        if isinstance(x, oi.CrossHairValue):
            return True
        if type(x) is tuple:
            for y in x:
                if isinstance(y, oi.CrossHairValue) or (type(y) is tuple and has_sym(y)):
                    return True
        return False

    def trace_op(self, frame, codeobj, codenum, oi=oi, orig=orig, has_sym=has_sym):
        item = oi.frame_stack_read(frame, -2)
        if not has_sym(item):
            return
        container = oi.frame_stack_read(frame, -1)
        ct = type(container)
        if ct is frozenset or ct is set:
            if ct is frozenset and len(container) > 1:
                key = id(container)
                hit = _charset_cache.get(key)
                if hit is None:
                    ok = True
                    for m in container:
                        if type(m) is not str or len(m) != 1:
                            ok = False
                            break
                    hit = (container, CharRangeSet(container) if ok else False)
                    _charset_cache[key] = hit
                if hit[1] is not False and hit[0] is container and isinstance(item, oi.CrossHairValue):
                    oi.frame_stack_write(frame, -1, hit[1])
                    return
            oi.frame_stack_write(frame, -1, oi.ShellMutableSet(oi.LinearSet(container)))
            return
        if isinstance(container, dict):
            oi.frame_stack_write(frame, -1, oi.SimpleDict(list(dict.items(container))))
            return
        if isinstance(item, oi.CrossHairValue):
            return orig(self, frame, codeobj, codenum)

    oi.ContainmentInterceptor.trace_op = trace_op
    oi.ContainmentInterceptor._verif_widened = True


_install()
