from html5lib._tokenizer import HTMLTokenizer
from html5lib.constants import tokenTypes
from collections import deque

class Empty:
    def read(self, n=-1):
        return ""

def mk(state, chunk, name, aname, aval):
    t = HTMLTokenizer(Empty())
    s = t.stream
    s.reportCharacterErrors = None
    s.chunk = chunk; s.chunkSize = len(chunk); s.chunkOffset = 0
    t.tokenQueue = deque([])
    t.currentToken = {"type": tokenTypes["StartTag"], "name": name, "data": [[aname, aval]], "selfClosing": False, "selfClosingAcknowledged": False}
    t.temporaryBuffer = ""
    t.state = getattr(t, state)
    return t

def step(state, chunk, name, aname, aval):
    t = mk(state, chunk, name, aname, aval)
    r = t.state()
    q = [(x["type"], x.get("name"), x.get("data") if not isinstance(x.get("data"), dict) else tuple(x["data"].items())) for x in t.tokenQueue if x["type"] != tokenTypes["ParseError"]]
    return (r, t.state.__name__, t.stream.chunkOffset, t.currentToken["name"], q)

def tagname(chunk: str, name: str) -> bool:
    """
    pre: len(chunk) <= 2 and len(name) <= 2
    post: _
    """
    r = step("tagNameState", chunk, name, "a", "")
    return r[0] is True

def attrname(chunk: str, aname: str) -> bool:
    """
    pre: len(chunk) <= 2 and 1 <= len(aname) <= 2
    post: _
    """
    r = step("attributeNameState", chunk, "x", aname, "")
    return r[0] is True

def data(chunk: str) -> bool:
    """
    pre: len(chunk) <= 2
    post: _
    """
    r = step("dataState", chunk, "x", "a", "")
    return r[0] in (True, False)
