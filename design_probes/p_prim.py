import sys
sys.modules['_elementtree'] = None
import xml.etree.ElementTree as ET
from xml.dom import minidom
from html5lib import treebuilders
def mk(kind):
    tb = treebuilders.getTreeBuilder("etree", ET)(True) if kind == "etree" else treebuilders.getTreeBuilder("dom")(True)
    nodes = [tb.elementClass(n, "http://www.w3.org/1999/xhtml") for n in ("a", "b", "c", "d")]
    nodes[0].appendChild(nodes[1])
    return tb, nodes
def dump_et(e):
    return (e.tag.split("}")[-1], e.text or "", tuple((dump_et(c), c.tail or "") for c in e))
def dump_dom(e):
    out = []; text = ""; kids = []
    pend = ""
    first = True
    lead = ""
    for c in e.childNodes:
        if c.nodeType == c.TEXT_NODE:
            if kids: kids[-1] = (kids[-1][0], kids[-1][1] + c.nodeValue)
            else: lead += c.nodeValue
        else:
            kids.append((dump_dom(c), ""))
    return (e.nodeName, lead, tuple(kids))
def apply(nodes, op, i, j, k):
    if op == 0: nodes[i].appendChild(nodes[j])
    elif op == 1: nodes[i].insertBefore(nodes[j], nodes[k])
    elif op == 2: nodes[i].insertText("t")
    elif op == 3: nodes[i].insertText("u", nodes[k])
    elif op == 4: nodes[i].reparentChildren(nodes[j])
    elif op == 5: nodes[i].removeChild(nodes[j])

def lockstep(op1: int, j1: int, op2: int, i2: int, j2: int) -> bool:
    """
    pre: op1 in (0, 1, 2, 3) and j1 in (2, 3) and op2 in (2, 4) and i2 == 0 and j2 in (2, 3) and j1 != j2
    post: _
    """
    _, e = mk("etree"); _, d = mk("dom")
    for nodes in (e, d):
        apply(nodes, op1, 0, j1, 1)
        apply(nodes, op2, i2, j2, 1)
    return [dump_et(n._element) for n in e] == [dump_dom(n.element) for n in d]
