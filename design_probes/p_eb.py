import html5lib._inputstream as I
RealEB = I.EncodingBytes
class SymEB:
    def __init__(self, value):
        self._v = value.lower()
        self._position = -1
    def __len__(self): return len(self._v)
    def __getitem__(self, k): return self._v[k]
    def startswith(self, b, pos=0): return self._v.startswith(b, pos)
    def index(self, b, pos=0): return self._v.index(b, pos)
    def __contains__(self, b): return b in self._v
    def __iter__(self): return self
    __next__ = RealEB.__dict__["__next__"]
    next = RealEB.__dict__["next"]
    previous = RealEB.__dict__["previous"]
    setPosition = RealEB.__dict__["setPosition"]
    getPosition = RealEB.__dict__["getPosition"]
    position = property(getPosition, setPosition)
    getCurrentByte = RealEB.__dict__["getCurrentByte"]
    currentByte = property(getCurrentByte)
    skip = RealEB.__dict__["skip"]
    skipUntil = RealEB.__dict__["skipUntil"]
    matchBytes = RealEB.__dict__["matchBytes"]
    jumpTo = RealEB.__dict__["jumpTo"]
I.EncodingBytes = SymEB

def prescan(h1: bytes, h3: bytes) -> bool:
    """
    pre: len(h1) <= 1 and len(h3) <= 2
    post: _
    """
    data = b"<meta " + h1 + b"charset=" + h3 + b">"
    enc = I.EncodingParser(data).getEncoding()
    return enc is None or enc.name != "utf-16le"
