import warnings
warnings.simplefilter("ignore")
from typing import List, Tuple, Optional, Dict
from html5lib.filters import whitespace, alphabeticalattributes
from html5lib import _ihatexml
from html5lib.treewalkers.base import TreeWalker
from collections import OrderedDict
import re

SP = "\t\n\x0c \r"

# ---- C17 kernel
def ref_collapse(t: str) -> str:
    out = []
    prev = False
    for ch in t:
        if ch in SP:
            if not prev:
                out.append(" ")
            prev = True
        else:
            out.append(ch)
            prev = False
    return "".join(out)

def c17_collapse(t: str) -> bool:
    """
    pre: len(t) <= 3
    post: _
    """
    return whitespace.collapse_spaces(t) == ref_collapse(t)

# ---- C20 kernel
def c20_toxml(n: str) -> bool:
    """
    pre: 1 <= len(n) <= 2
    pre: all(ord(c) <= 0xFFFF for c in n)
    post: _
    """
    f = _ihatexml.InfosetFilter()
    out = f.toXmlName(n)
    return len(out) >= len(n)

# ---- C11 kernel: text splitting
def c11_text(d: str) -> bool:
    """
    pre: len(d) <= 3
    post: _
    """
    w = TreeWalker(None)
    toks = list(w.text(d))
    joined = "".join(t["data"] for t in toks)
    ok = joined == d
    for t in toks:
        if t["type"] == "SpaceCharacters":
            ok = ok and all(c in SP for c in t["data"]) and t["data"] != ""
        else:
            ok = ok and t["data"] != "" and t["data"][0] not in SP and t["data"][-1] not in SP
    return ok

# ---- C18 kernel
def c18_sort(n1: str, n2: str, ns1: Optional[str], ns2: Optional[str], v1: str, v2: str) -> bool:
    """
    pre: (ns1, n1) != (ns2, n2)
    post: _
    """
    tok = {"type": "StartTag", "name": "a", "data": OrderedDict([((ns1, n1), v1), ((ns2, n2), v2)])}
    out = list(alphabeticalattributes.Filter([tok]))[0]["data"]
    items = list(out.items())
    k = [((a[0] or ""), a[1]) for a, _ in items]
    return len(items) == 2 and k[0] <= k[1] and dict(items) == {(ns1, n1): v1, (ns2, n2): v2}
