import warnings
warnings.simplefilter("ignore")
from html5lib.filters import sanitizer
from html5lib.constants import namespaces
F = sanitizer.Filter([])
def href(v: str) -> bool:
    """
    pre: len(v) <= 3
    post: _
    """
    tok = {"type": "StartTag", "name": "a", "namespace": namespaces["html"], "data": {(None, "href"): v}}
    out = F.allowed_token(tok)
    if (None, "href") in out["data"]:
        val = out["data"][(None, "href")]
        return not val.lower().startswith("js:")
    return True
