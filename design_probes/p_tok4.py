import html5lib._tokenizer as T
import html5lib._inputstream as I
from html5lib._tokenizer import HTMLTokenizer
for mod in ():
    for nm in ("spaceCharacters", "asciiLetters", "digits", "hexDigits", "asciiUppercase"):
        if hasattr(mod, nm):
            setattr(mod, nm, set(getattr(mod, nm)))

class Src:
    def __init__(self, s):
        self.s = s
        self.done = False
    def read(self, n=-1):
        if n == 0 or self.done:
            return ""
        self.done = True
        return self.s

def toks(s: str):
    out = []
    t = HTMLTokenizer(Src(s))
    t.stream.reportCharacterErrors = None
    for t in t:
        out.append((t["type"], t.get("name")))
    return out

def no_crash2(s: str) -> int:
    """
    pre: len(s) == 2
    post: _ >= 0
    """
    return len(toks(s))

def no_crash3(s: str) -> int:
    """
    pre: len(s) == 3
    post: _ >= 0
    """
    return len(toks(s))
