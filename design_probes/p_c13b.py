from html5lib.filters import optionaltags
F = optionaltags.Filter([])
OPT_START = ("html", "head", "body", "colgroup", "tbody")
OPT_END = ("html","head","body","li","dt","dd","p","rt","rp","optgroup","option","colgroup","thead","tbody","tfoot","tr","td","th")

def start_only_optional(tagname: str, nexttype: str, nextname: str) -> bool:
    """
    pre: len(tagname) >= 1
    post: _
    """
    nxt = {"type": nexttype, "name": nextname}
    r = F.is_optional_start(tagname, None, nxt)
    return (not r) or tagname in OPT_START

def end_only_optional(tagname: str, nexttype: str, nextname: str) -> bool:
    """
    pre: len(tagname) >= 1
    post: _
    """
    nxt = {"type": nexttype, "name": nextname}
    r = F.is_optional_end(tagname, nxt)
    return (not r) or tagname in OPT_END
