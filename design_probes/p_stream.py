from html5lib._inputstream import HTMLUnicodeInputStream
from typing import List

class Src:
    def __init__(self, s, sizes):
        self.s = s; self.pos = 0; self.sizes = sizes; self.i = 0
    def read(self, n=-1):
        if n == 0:
            return ""
        k = self.sizes[self.i] if self.i < len(self.sizes) else len(self.s)
        self.i += 1
        if k > n: k = n
        r = self.s[self.pos:self.pos + k]
        self.pos += len(r)
        return r

def ref(s):
    return s.replace("\r\n", "\n").replace("\r", "\n")

def chunked(s: str, a: int, b: int) -> bool:
    """
    pre: len(s) <= 3
    pre: 1 <= a <= 3 and 1 <= b <= 3
    post: _
    """
    st = HTMLUnicodeInputStream(Src(s, [a, b]))
    st.reportCharacterErrors = None
    out = []
    while True:
        c = st.char()
        if c is None:
            break
        out.append(c)
    return "".join(out) == ref(s)
