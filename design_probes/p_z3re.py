import re, time, z3
import re._parser as sp
from html5lib import serializer
def cls(items):
    rs=[]
    neg=False
    for op, av in items:
        n=str(op)
        if n=="NEGATE": neg=True
        elif n=="LITERAL": rs.append(z3.Re(z3.StringVal(chr(av))) if av<256 else z3.Range(chr(av),chr(av)))
        elif n=="RANGE": rs.append(z3.Range(chr(av[0]),chr(av[1])))
        else: raise NotImplementedError(n)
    r=z3.Union(*rs) if len(rs)>1 else rs[0]
    return z3.Complement(r) if neg else r
for nm in ("_quoteAttributeSpec","_quoteAttributeLegacy"):
    pat=getattr(serializer,nm).pattern
    p=sp.parse(pat)
    assert len(p)==1 and str(p[0][0])=="IN"
    C=cls(p[0][1])
    anyc=z3.AllChar(z3.ReSort(z3.StringSort()))
    v=z3.String("v")
    s=z3.Solver()
    # value left unquoted: no char of the class, non-empty
    s.add(z3.Not(z3.InRe(v, z3.Concat(z3.Star(anyc), C, z3.Star(anyc)))), z3.Length(v)>0)
    bad=z3.Union(*[z3.Re(z3.StringVal(c)) for c in "\t\n\x0c\r >"])
    s.add(z3.Or(z3.InRe(v, z3.Concat(z3.Star(anyc), bad, z3.Star(anyc))), z3.PrefixOf(z3.StringVal('"'), v), z3.PrefixOf(z3.StringVal("'"), v)))
    t=time.time(); print(nm, s.check(), round(time.time()-t,2))
