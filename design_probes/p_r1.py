from html5lib._tokenizer import HTMLTokenizer
from html5lib.constants import tokenTypes
from collections import deque
SP = "\t\n\x0c\r "
AL = "abcdefghijklmnopqrstuvwxyzABCDEFGHIJKLMNOPQRSTUVWXYZ"
class Empty:
    def read(self, n=-1): return ""

def impl(state, chunk, name):
    t = HTMLTokenizer(Empty()); s = t.stream; s.reportCharacterErrors = None
    s.chunk = chunk; s.chunkSize = len(chunk); s.chunkOffset = 0
    t.tokenQueue = deque([])
    t.currentToken = {"type": tokenTypes["StartTag"], "name": name, "data": [], "selfClosing": False, "selfClosingAcknowledged": False}
    t.state = getattr(t, state)
    alive = t.state()
    chars = "".join(x["data"] for x in t.tokenQueue if x["type"] in (1, 2))
    tags = [(x["type"], x["name"]) for x in t.tokenQueue if x["type"] in (3, 4)]
    return (alive, t.state.__name__, len(chunk) - (s.chunkSize - s.chunkOffset), t.currentToken["name"], chars, tags)

# --- reference: spec micro-steps (only the three states of this probe)
def ref(state, chunk, name, nconsume):
    i = 0; chars = ""; tags = []; alive = True
    cur = name
    while True:
        c = chunk[i] if i < len(chunk) else None
        if state == "data":
            if c is None: alive = False; break
            i += 1
            if c == "&": state = "charref_data"
            elif c == "<": state = "tagopen"
            else: chars += c
        elif state == "tagname":
            if c is None: state = "data"; break      # eof-in-tag: emit nothing
            i += 1
            if c in SP: state = "before_attr_name"
            elif c == "/": state = "self_closing"
            elif c == ">":
                cur = "".join(chr(ord(ch)+32) if "A" <= ch <= "Z" else ch for ch in cur); tags.append((3, cur)); state = "data"
            elif c == "\0": cur += "�"
            else: cur += c
        else:
            break
        if i >= nconsume:
            break
    return (alive, state, i, cur, chars, tags)

MAP = {"dataState": "data", "tagOpenState": "tagopen", "tagNameState": "tagname", "entityDataState": "charref_data",
       "beforeAttributeNameState": "before_attr_name", "selfClosingStartTagState": "self_closing"}

def step_tagname(chunk: str, name: str) -> bool:
    """
    pre: len(chunk) <= 2 and 1 <= len(name) <= 2
    post: _
    """
    a = impl("tagNameState", chunk, name)
    n = a[2] if a[2] > 0 else 1
    r = ref("tagname", chunk, name, n)
    return (a[0], MAP[a[1]], a[2], a[3], a[4], a[5]) == r or (a[2] == 0 and r[2] == 0)

def step_data(chunk: str) -> bool:
    """
    pre: len(chunk) <= 2
    post: _
    """
    a = impl("dataState", chunk, "x")
    n = a[2] if a[2] > 0 else 1
    r = ref("data", chunk, "x", n)
    return (a[0], MAP[a[1]], a[2], a[4]) == (r[0], r[1], r[2], r[4])
