import sys
sys.modules['_elementtree'] = None  # force pure-python ElementTree
import xml.etree.ElementTree as ET
import html5lib
from html5lib import html5parser, treebuilders, _utils
from html5lib.constants import tokenTypes
from crosshair.tracers import NoTracing, ResumedTracing

def _md_getitem(self, key):
    for k in dict.keys(self):
        if k == key:
            return dict.__getitem__(self, k)
    return self.default
_utils.MethodDispatcher.__getitem__ = _md_getitem
def _pst(self, token):
    return self.startTagHandler[token["name"]](token)
def _pet(self, token):
    return self.endTagHandler[token["name"]](token)
html5parser.Phase.processStartTag = _pst
html5parser.Phase.processEndTag = _pet

class StubStream:
    charEncoding = (None, "certain")
    def position(self):
        return (1, 0)

class StubTokenizer:
    def __init__(self, tokens):
        self.tokens = tokens
        self.stream = StubStream()
        self.state = self.dataState = "data"
        self.rcdataState = "rcdata"; self.rawtextState = "rawtext"
        self.scriptDataState = "script"; self.plaintextState = "plaintext"
    def __iter__(self):
        n = self.nprefix
        for i, t in enumerate(self.tokens):
            if i == n:
                self.swap.__exit__(None, None, None)   # resume tracing right before the first symbolic token
                self.swap = None
            yield t

def st(name, attrs=None):
    return {"type": tokenTypes["StartTag"], "name": name, "data": dict(attrs or {}), "selfClosing": False, "selfClosingAcknowledged": False}
def et(name):
    return {"type": tokenTypes["EndTag"], "name": name, "data": {}, "selfClosing": False}
def ch(d):
    return {"type": tokenTypes["Characters"], "data": d}

P = html5parser.HTMLParser(tree=treebuilders.getTreeBuilder("etree", ET))

def run(tokens, nprefix=0):
    sw = NoTracing(); sw.__enter__()
    p = P
    p.innerHTMLMode = False; p.container = None; p.scripting = False
    p.tokenizer = StubTokenizer(tokens)
    p.tokenizer.nprefix = nprefix; p.tokenizer.swap = sw
    p.reset()
    p.mainLoop()
    return p

def one_start(name: str) -> bool:
    """
    pre: 1 <= len(name) <= 6
    post: _
    """
    p = run([st("b"), st("div"), st("table"), st(name), ch("x"), et("table"), et("b")], 3)
    d = p.tree.getDocument()
    return d is not None
