import html5lib._tokenizer as T
from html5lib._tokenizer import HTMLTokenizer
from html5lib.constants import tokenTypes
from collections import deque
import html as _html

class Empty:
    def read(self, n=-1):
        return ""
_N = [0]
T.int = lambda s, radix: _N[0]

def ref(n):
    if n in _html._invalid_charrefs:
        return _html._invalid_charrefs[n]
    if 0xD800 <= n <= 0xDFFF or n > 0x10FFFF:
        return "�"
    return chr(n)

def numeric(n: int, ishex: bool, tail: str) -> bool:
    """
    pre: n >= 0 and len(tail) <= 1
    post: _
    """
    t = HTMLTokenizer(Empty())
    s = t.stream
    s.reportCharacterErrors = None
    chunk = "1" + tail
    s.chunk = chunk; s.chunkSize = len(chunk); s.chunkOffset = 0
    t.tokenQueue = deque([])
    _N[0] = n
    out = t.consumeNumberEntity(ishex)
    return out == ref(n)
