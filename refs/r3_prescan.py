"""R3 — the WHATWG "prescan a byte stream to determine its encoding" algorithm and "extracting a character encoding from
a meta element" (Living Standard, 2020), written from the standard, independent of html5lib.  Label resolution ("get an
encoding") uses the `webencodings` package (the Encoding Standard's label table, the same third-party table html5lib uses).
Operates on the first 1024 bytes.  Returns the canonical encoding name (webencodings .name) or None."""
import webencodings

WS = b"\t\n\x0c\r "

def get_encoding(label_bytes):
    try:
        label = label_bytes.decode("ascii")
    except UnicodeDecodeError:
        return None
    try:
        e = webencodings.lookup(label)
    except Exception:
        return None
    return e.name if e is not None else None

def extract_from_meta_content(s):
    """s: bytes (already lower-cased is fine; matching is ASCII case-insensitive)"""
    low = s.lower()
    pos = 0
    while True:
        i = low.find(b"charset", pos)
        if i < 0:
            return None
        j = i + 7
        while j < len(s) and s[j:j + 1] in WS:
            j += 1
        if j < len(s) and s[j:j + 1] == b"=":
            j += 1
            break
        pos = j if j > i else i + 1      # "loop": continue searching after this occurrence
        pos = i + 7
    while j < len(s) and s[j:j + 1] in WS:
        j += 1
    if j >= len(s):
        return None
    q = s[j:j + 1]
    if q in (b'"', b"'"):
        k = s.find(q, j + 1)
        if k < 0:
            return None
        return get_encoding(s[j + 1:k])
    k = j
    while k < len(s) and s[k:k + 1] not in WS and s[k:k + 1] != b";":
        k += 1
    return get_encoding(s[j:k])

def _get_attribute(d, p, lt=False):
    """-> (name, value, new position) or (None, None, new position)"""
    n = len(d)
    while p < n and (d[p:p + 1] in WS or d[p:p + 1] == b"/"):
        p += 1
    if p >= n:
        return None, None, p
    if d[p:p + 1] == b">":
        return None, None, p
    name = b""
    value = b""
    # attribute name
    while True:
        if p >= n:
            return None, None, p
        c = d[p:p + 1]
        if c == b"=" and name != b"":
            p += 1
            break
        if c in WS:
            while p < n and d[p:p + 1] in WS:
                p += 1
            if p >= n:
                return None, None, p
            if d[p:p + 1] != b"=":
                return name, b"", p
            p += 1
            break
        if c == b"/" or c == b">":
            return name, b"", p
        name += c.lower() if b"A" <= c <= b"Z" else c
        p += 1
    # value
    while p < n and d[p:p + 1] in WS:
        p += 1
    if p >= n:
        return None, None, p
    c = d[p:p + 1]
    if c in (b'"', b"'"):
        q = c
        p += 1
        while True:
            if p >= n:
                return None, None, p
            c = d[p:p + 1]
            p += 1
            if c == q:
                return name, value, p
            value += c.lower() if b"A" <= c <= b"Z" else c
    if c == b">":
        return name, b"", p
    value += c.lower() if b"A" <= c <= b"Z" else c
    p += 1
    while True:
        if p >= n:
            return None, None, p
        c = d[p:p + 1]
        if c in WS or c == b">" or (lt and c == b"<"):
            return name, value, p
        value += c.lower() if b"A" <= c <= b"Z" else c
        p += 1

def prescan(data, slash_after_meta=True, overlapping_comment=True, failed_charset_blocks=True, lt_terminates=False, dedupe_attrs=True, endtag_first_letter=True, x_user_defined=True, lone_lt_skips_one=True):
    """the three flags, when False, reproduce three documented html5lib deviations (see known_findings.json C06-prescan-*)"""
    d = data[:1024]
    n = len(d)
    p = 0
    while p < n:
        if d.startswith(b"<!--", p):
            k = d.find(b"-->", p + 2 if overlapping_comment else p + 4)
            if k < 0:
                return None
            p = k + 3
            continue
        low6 = d[p:p + 6].lower()
        if low6[:5] == b"<meta" and len(low6) == 6 and (low6[5:6] in WS or (slash_after_meta and low6[5:6] == b"/")):
            p += 6
            seen = []
            got_pragma = False
            need_pragma = None
            charset = None          # None = null, False = failure
            while True:
                name, value, p = _get_attribute(d, p, lt_terminates)
                if name is None:
                    break
                if dedupe_attrs and name in seen:
                    continue
                seen.append(name)
                if name == b"http-equiv":
                    if value == b"content-type":
                        got_pragma = True
                elif name == b"content":
                    r = extract_from_meta_content(value)
                    if r is not None and charset is None:
                        charset = r
                        need_pragma = True
                elif name == b"charset":
                    r = get_encoding(value)
                    if r is not None or failed_charset_blocks:
                        charset = r if r is not None else False
                        need_pragma = False
            if need_pragma is None or (need_pragma is True and not got_pragma) or charset is False or charset is None:
                p += 0
                continue_scan = True
            else:
                if charset in ("utf-16be", "utf-16le"):
                    charset = "utf-8"
                if x_user_defined and charset == "x-user-defined":
                    charset = "windows-1252"
                return charset
            # "next byte": the attribute loop left p at the terminator; move on
            p += 1
            continue
        c1 = d[p + 1:p + 2]
        c2 = d[p + 2:p + 3]
        c3 = d[p + 3:p + 4]
        if (not endtag_first_letter) and d[p:p + 1] == b"<" and c1 == b"/" and not (c3 != b"" and b"a" <= c3.lower() <= b"z"):
            # html5lib looks at the SECOND character after '</' : anything but a letter there -> skip to the next '>'
            k = d.find(b">", p + 2)
            if k < 0:
                return None
            p = k + 1
            continue
        if d[p:p + 1] == b"<" and ((b"a" <= c1.lower() <= b"z" and c1 != b"") or (c1 == b"/" and c2 != b"" and (b"a" <= c2.lower() <= b"z" or not endtag_first_letter))):
            _tagstart = p
            # a start or end tag: skip the name, then all attributes
            while p < n and d[p:p + 1] not in WS and d[p:p + 1] != b">" and not (lt_terminates and p > 0 and d[p:p + 1] == b"<" and d[p - 1:p] != b"" and p != _tagstart):
                p += 1
            if lt_terminates and p < n and d[p:p + 1] == b"<":
                continue            # older revision: '<' ends the tag name and is reprocessed
            while True:
                name, value, p = _get_attribute(d, p, lt_terminates)
                if name is None:
                    break
            p += 1
            continue
        if d[p:p + 1] == b"<" and c1 in (b"!", b"/", b"?") and c1 != b"":
            k = d.find(b">", p)
            if k < 0:
                return None
            p = k + 1
            continue
        if d[p:p + 1] == b"<" and not lone_lt_skips_one:
            p += 2              # html5lib: a '<' that starts nothing also swallows the byte after it
            continue
        p += 1
    return None
