"""R10 -- reference implementation of the WHATWG HTML character reference
algorithm (tokenizer sections "Character reference state", "Named character
reference state", "Ambiguous ampersand state", "Numeric character reference
state" ... "Numeric character reference end state"), written from the standard.

Tables come from the Python standard library, NOT from html5lib:
  * html.entities.html5      -- the named character reference table
                                (keys with and without the trailing ";")
  * html._invalid_charrefs   -- of which only the 0x80..0x9F rows are used: the
                                "numeric character reference end state" C1 table

Single entry point:

    consume(inp, i, in_attribute) -> (replacement_or_None, new_i)

`i` is the index just after the "&".  `consume` walks an immutable trie by direct character comparisons (no hashing of
input-derived strings), so it can be executed symbolically without realisation.

`None` means "this is not a character
reference": the caller flushes "&" as text and reconsumes inp[i] in the return
state.  (The standard, in the no-match / no-digits / attribute-exception cases,
flushes "&" *plus* the characters it looked at and continues after them.  All of
those characters are ASCII alphanumerics, "#", "x" or "X", each of which every
possible return state -- data, RCDATA, the three attribute value states -- treats
as "anything else: emit / append the current input character", and the
ambiguous ampersand state does the same for alphanumerics, so flushing only "&"
and reconsuming is observationally identical on the token stream.)

Parse errors are not reported.
"""

from html.entities import html5 as _HTML5
from html import _invalid_charrefs as _PY_INVALID

# ---------------------------------------------------------------------------
# constant tables (built once at import, never mutated afterwards)

NAMED = dict(_HTML5)


def _build_prefixes(table):
    p = set()
    for k in table:
        for n in range(1, len(k) + 1):
            p.add(k[:n])
    return frozenset(p)


PREFIXES = _build_prefixes(NAMED)
MAX_NAME = max(len(k) for k in NAMED)

# "numeric character reference end state" table: 0x80..0x9F only.
C1_TABLE = {n: s for n, s in _PY_INVALID.items() if 0x80 <= n <= 0x9F and s != chr(n)}


# ---------------------------------------------------------------------------
# character classes (direct comparisons only, ASCII only)

def is_digit(c):
    return c is not None and "0" <= c <= "9"


def is_upper_hex(c):
    return c is not None and "A" <= c <= "F"


def is_lower_hex(c):
    return c is not None and "a" <= c <= "f"


def is_alnum(c):
    if c is None:
        return False
    return ("0" <= c <= "9") or ("A" <= c <= "Z") or ("a" <= c <= "z")


def _at(inp, i):
    if i < len(inp):
        return inp[i]
    return None


# ---------------------------------------------------------------------------

def numeric_value_to_string(n):
    """Numeric character reference end state: code -> replacement string."""
    if n == 0:
        return "�"                      # null-character-reference
    if n > 0x10FFFF:
        return "�"                      # character-reference-outside-unicode-range
    if 0xD800 <= n <= 0xDFFF:
        return "�"                      # surrogate-character-reference
    # noncharacters, 0x0D, controls: parse error only; value kept -- except
    # for the C1 table below.
    if 0x80 <= n <= 0x9F:
        r = C1_TABLE.get(n)
        if r is not None:
            return r
    return chr(n)


def consume_numeric(inp, i):
    """inp[i-1] == "#".  Returns (replacement_or_None, new_i)."""
    j = i
    c = _at(inp, j)
    n = 0
    ndigits = 0
    if c == "x" or c == "X":
        j += 1
        while True:
            c = _at(inp, j)
            if is_digit(c):
                n = n * 16 + (ord(c) - 0x30)
            elif is_upper_hex(c):
                n = n * 16 + (ord(c) - 0x37)
            elif is_lower_hex(c):
                n = n * 16 + (ord(c) - 0x57)
            else:
                break
            ndigits += 1
            j += 1
    else:
        while True:
            c = _at(inp, j)
            if is_digit(c):
                n = n * 10 + (ord(c) - 0x30)
            else:
                break
            ndigits += 1
            j += 1
    if ndigits == 0:
        # absence-of-digits-in-numeric-character-reference: not a reference
        return None
    if _at(inp, j) == ";":
        j += 1
    # else: missing-semicolon-after-character-reference (parse error only)
    return (numeric_value_to_string(n), j)


def _build_trie(table):
    """Immutable trie over the named table.  A node is a 3-tuple
    (replacement_or_None, child_chars: str, child_nodes: tuple); the children
    are found by a linear scan with direct `==` comparisons so that a symbolic
    input character is never hashed."""
    def build(prefix, keys):
        by_char = {}
        for k in keys:
            if len(k) > len(prefix):
                by_char.setdefault(k[len(prefix)], []).append(k)
        chars = "".join(sorted(by_char))
        nodes = tuple(build(prefix + ch, by_char[ch]) for ch in chars)
        return (table.get(prefix), chars, nodes)
    return build("", sorted(table))


TRIE = _build_trie(NAMED)


def longest_named_match(inp, i):
    """Length-maximal identifier of the named table that is a prefix of
    inp[i:].  Returns (replacement, end index exclusive) or None."""
    node = TRIE
    best = None
    j = i
    n = len(inp)
    while j < n:
        c = inp[j]
        chars = node[1]
        nxt = None
        k = 0
        while k < len(chars):
            if c == chars[k]:
                nxt = node[2][k]
                break
            k += 1
        if nxt is None:
            break
        node = nxt
        j += 1
        if node[0] is not None:
            best = (node[0], j)
    return best


def longest_named_match_dict(inp, i):
    """Same as longest_named_match, by dict/set lookups (used by validate_r1.py
    to cross-check the trie; hashes the input, so not for symbolic use)."""
    best = None
    j = i
    n = len(inp)
    while j < n and (j - i) < MAX_NAME:
        if inp[i:j + 1] not in PREFIXES:
            break
        j += 1
        if inp[i:j] in NAMED:
            best = (NAMED[inp[i:j]], j)
    return best


def consume(inp, i, in_attribute):
    """Character reference state entered; inp[i-1] == "&".

    Returns (replacement_string, new_i) or (None, i)."""
    c = _at(inp, i)
    if c == "#":
        r = consume_numeric(inp, i + 1)
        if r is None:
            return (None, i)
        return r
    if not is_alnum(c):
        return (None, i)
    m = longest_named_match(inp, i)
    if m is None:
        # no match: "&" flushed, ambiguous ampersand state passes the
        # alphanumerics through as text.
        return (None, i)
    end = m[1]
    if in_attribute and inp[end - 1] != ";":
        nxt = _at(inp, end)
        if nxt == "=" or is_alnum(nxt):
            # historical attribute exception: left as text
            return (None, i)
    return m
