#!/usr/bin/env python
"""Validate R1 (refs/r1_tokenizer.py) against html5lib's real tokenizer on
concrete inputs.

    /verif/.venv/bin/python /verif/refs/validate_r1.py [--random N] [--frag N]
                                                      [--jobs J] [--show K]

Exit status 0: every disagreement is explained by an accepted html5lib
deviation (see DEVIATIONS below and README.md) AND vanishes when the same input
is run through `FixedTokenizer` (html5lib's tokenizer with exactly the deviating
state methods replaced by what the standard says).  Exit status 1 otherwise.

What is compared: the token stream (parse errors dropped, adjacent character
tokens merged, start tag attributes after "first duplicate wins", end tags
reduced to their name, doctype `correct` flag mapped to force_quirks) followed
by an explicit EOF token (html5lib has no EOF token: its iterator just stops).
"""

import argparse
import multiprocessing
import os
import random
import sys

sys.path.insert(0, os.path.dirname(os.path.abspath(__file__)))

from html5lib._tokenizer import HTMLTokenizer          # noqa: E402
from html5lib.constants import tokenTypes              # noqa: E402

import r1_tokenizer as R1                              # noqa: E402
import r10_charref as R10                              # noqa: E402

SEED = 20201001

T_DOCTYPE = tokenTypes["Doctype"]
T_CHARS = tokenTypes["Characters"]
T_SPACE = tokenTypes["SpaceCharacters"]
T_START = tokenTypes["StartTag"]
T_END = tokenTypes["EndTag"]
T_COMMENT = tokenTypes["Comment"]
T_ERROR = tokenTypes["ParseError"]

INITIAL2METHOD = {
    "data": "dataState",
    "rcdata": "rcdataState",
    "rawtext": "rawtextState",
    "script_data": "scriptDataState",
    "plaintext": "plaintextState",
}


# ---------------------------------------------------------------------------
# driving html5lib

class _Node(object):
    def __init__(self, namespace):
        self.namespace = namespace


class _Tree(object):
    defaultNamespace = "http://www.w3.org/1999/xhtml"

    def __init__(self, foreign):
        ns = "http://www.w3.org/2000/svg" if foreign else self.defaultNamespace
        self.openElements = [_Node(ns)]


class StubParser(object):
    """Just enough of HTMLParser for markupDeclarationOpenState's
    `self.parser.tree.openElements[-1].namespace != ...defaultNamespace`."""

    def __init__(self, foreign):
        self.tree = _Tree(foreign)


class FixedTokenizer(HTMLTokenizer):
    """html5lib's tokenizer with ONLY the accepted deviations repaired, each
    repair being the literal text of the standard for that character.  Used to
    show that the deviations listed in DEVIATIONS are the *only* reason for a
    disagreement on an input they match."""

    # D1: comment start state, U+0000: the standard reconsumes in the comment
    # state (where U+FFFD is appended); html5lib appends but stays in the
    # comment start state.
    def commentStartState(self):
        data = self.stream.char()
        if data == "\u0000":
            self.currentToken["data"] += "�"
            self.state = self.commentState
            return True
        self.stream.unget(data)
        return HTMLTokenizer.commentStartState(self)

    # D2: comment start dash state, U+0000: standard appends "-" and reconsumes
    # in the comment state; html5lib appends "-�" but stays in the
    # comment start dash state.
    def commentStartDashState(self):
        data = self.stream.char()
        if data == "\u0000":
            self.currentToken["data"] += "-�"
            self.state = self.commentState
            return True
        self.stream.unget(data)
        return HTMLTokenizer.commentStartDashState(self)

    # D3: CDATA section state: U+0000 is emitted unchanged by the tokenizer
    # (the tree construction stage deals with it); html5lib replaces it by
    # U+FFFD in the tokenizer.
    def cdataSectionState(self):
        # same scan as the original, minus the U+0000 -> U+FFFD replacement
        data = []
        while True:
            data.append(self.stream.charsUntil("]"))
            data.append(self.stream.charsUntil(">"))
            char = self.stream.char()
            if char is None:
                break
            if data[-1][-2:] == "]]":
                data[-1] = data[-1][:-2]
                break
            data.append(char)
        data = "".join(data)
        if data:
            self.tokenQueue.append({"type": T_CHARS, "data": data})
        self.state = self.dataState
        return True

    # D4: "appropriate end tag token": html5lib compares with unicode
    # str.lower() of the last start tag name; the standard compares the
    # (ASCII-lowercased-on-the-fly) end tag name with the last start tag name
    # exactly.
    def _appropriate(self):
        return bool(self.currentToken) and \
            self.currentToken["name"] == self.temporaryBuffer.translate(_UP2LOW)

    def _endTagName(self, textState):
        appropriate = self._appropriate()
        data = self.stream.char()
        if data is not None and data in "\t\n\x0c " and appropriate:
            self.currentToken = {"type": T_END, "name": self.temporaryBuffer,
                                 "data": [], "selfClosing": False}
            self.state = self.beforeAttributeNameState
        elif data == "/" and appropriate:
            self.currentToken = {"type": T_END, "name": self.temporaryBuffer,
                                 "data": [], "selfClosing": False}
            self.state = self.selfClosingStartTagState
        elif data == ">" and appropriate:
            self.currentToken = {"type": T_END, "name": self.temporaryBuffer,
                                 "data": [], "selfClosing": False}
            self.emitCurrentToken()
            self.state = self.dataState
        elif data is not None and ("a" <= data <= "z" or "A" <= data <= "Z"):
            self.temporaryBuffer += data
        else:
            self.tokenQueue.append({"type": T_CHARS, "data": "</" + self.temporaryBuffer})
            self.stream.unget(data)
            self.state = textState
        return True

    def rcdataEndTagNameState(self):
        return self._endTagName(self.rcdataState)

    def rawtextEndTagNameState(self):
        return self._endTagName(self.rawtextState)

    def scriptDataEndTagNameState(self):
        return self._endTagName(self.scriptDataState)

    def scriptDataEscapedEndTagNameState(self):
        return self._endTagName(self.scriptDataEscapedState)


_UP2LOW = {c: c + 32 for c in range(ord("A"), ord("Z") + 1)}


def run_html5lib(inp, initial, last_start_tag, cdata_allowed, cls=HTMLTokenizer):
    """-> token list in R1's shape, or [("EXCEPTION", repr)]"""
    try:
        tok = cls(inp, parser=StubParser(cdata_allowed))
        tok.state = getattr(tok, INITIAL2METHOD[initial])
        if last_start_tag is not None:
            # same trick as html5lib's own tokenizer test harness
            tok.currentToken = {"type": "startTag", "name": last_start_tag}
        out = []
        for t in tok:
            ty = t["type"]
            if ty == T_ERROR:
                continue
            if ty == T_CHARS or ty == T_SPACE:
                out.append(("Character", t["data"]))
            elif ty == T_START:
                data = t["data"]
                # emitCurrentToken() has already turned the raw [name, value]
                # list into a dict with "first duplicate wins"
                attrs = [[k, v] for k, v in data.items()]
                out.append(("StartTag", t["name"], attrs, bool(t["selfClosing"])))
            elif ty == T_END:
                out.append(("EndTag", t["name"]))
            elif ty == T_COMMENT:
                out.append(("Comment", t["data"]))
            elif ty == T_DOCTYPE:
                name = t["name"]
                if name == "":
                    # REPRESENTATION: html5lib creates the DOCTYPE token with
                    # name "" where the standard says "missing".  A DOCTYPE
                    # name in the standard is never the empty string (it is
                    # created with its first character), so "" <-> None is a
                    # bijection and not an input-dependent deviation.
                    name = None
                out.append(("Doctype", name, t["publicId"], t["systemId"], not t["correct"]))
            else:
                out.append(("UNKNOWN", repr(t)))
        out.append(("EOF",))
        return R1.merge_chars(out)
    except Exception as e:          # noqa: BLE001
        return [("EXCEPTION", type(e).__name__ + ": " + str(e))]


def run_r1(inp, initial, last_start_tag, cdata_allowed):
    try:
        return R1.tokenize(inp, initial, last_start_tag, cdata_allowed)
    except Exception as e:          # noqa: BLE001
        return [("EXCEPTION", type(e).__name__ + ": " + str(e))]


# ---------------------------------------------------------------------------
# accepted html5lib deviations: narrow predicates on the INPUT (and config).
# Each entry: (id, predicate(inp, initial, last_start_tag, cdata_allowed)).
# A disagreement is only accepted if (1) one of these predicates holds, and
# (2) FixedTokenizer agrees with R1 on that input.

def _d1_comment_start_nul(inp, initial, last, cdata):
    # NUL as the very first character of a comment: "<!--" NUL
    return "<!--\x00" in inp


def _d2_comment_start_dash_nul(inp, initial, last, cdata):
    # "<!---" NUL
    return "<!---\x00" in inp


def _d3_cdata_nul(inp, initial, last, cdata):
    # a NUL somewhere after "<![CDATA[" while CDATA sections are allowed
    if not cdata:
        return False
    k = inp.find("<![CDATA[")
    return k >= 0 and "\x00" in inp[k + 9:]


def _d4_nonascii_last_start_tag(inp, initial, last, cdata):
    # last start tag name contains a non-ASCII character whose unicode
    # lower() is an ASCII letter (U+212A KELVIN SIGN -> "k",
    # U+0130 -> "i̇" is two chars and never matches)
    if last is None:
        return False
    for ch in last:
        if ord(ch) > 127 and ch.lower() != ch:
            return True
    return False


DEVIATIONS = [
    ("D1-comment-start-NUL", _d1_comment_start_nul),
    ("D2-comment-start-dash-NUL", _d2_comment_start_dash_nul),
    ("D3-CDATA-NUL", _d3_cdata_nul),
    ("D4-appropriate-end-tag-unicode-lower", _d4_nonascii_last_start_tag),
]


def explain(inp, initial, last, cdata):
    return [name for name, pred in DEVIATIONS if pred(inp, initial, last, cdata)]


def check_one(inp, initial, last, cdata):
    """-> None if R1 == html5lib; else (status, inp, cfg, r1, h5, names)
    status: "accepted" / "UNEXPLAINED" """
    a = run_r1(inp, initial, last, cdata)
    b = run_html5lib(inp, initial, last, cdata)
    if a == b:
        return None
    names = explain(inp, initial, last, cdata)
    status = "UNEXPLAINED"
    if names:
        c = run_html5lib(inp, initial, last, cdata, cls=FixedTokenizer)
        if a == c:
            status = "accepted"
        else:
            b = ("html5lib", b, "fixed", c)
    return (status, inp, (initial, last, cdata), a, b, names)


# ---------------------------------------------------------------------------
# lock-step check: validates IMPL2SPEC / SPEC_CANON and the alignment rule
# documented next to IMPL2SPEC in r1_tokenizer.py, by calling html5lib's state
# methods ONE AT A TIME and stepping R1 alongside.

class _Source(object):
    """file-like source that hands out the whole input in one read()"""

    def __init__(self, s):
        self.s = s
        self.given = False

    def read(self, n=-1):
        if n == 0 or self.given:
            return ""
        self.given = True
        return self.s


def _low(s):
    if s is None:
        return None
    return s.translate(_UP2LOW)


def _convert_queue(q):
    out = []
    for t in q:
        ty = t["type"]
        if ty == T_CHARS or ty == T_SPACE:
            out.append(("Character", t["data"]))
        elif ty == T_START:
            out.append(("StartTag", t["name"], [[k, v] for k, v in t["data"].items()], bool(t["selfClosing"])))
        elif ty == T_END:
            out.append(("EndTag", t["name"]))
        elif ty == T_COMMENT:
            out.append(("Comment", t["data"]))
        elif ty == T_DOCTYPE:
            out.append(("Doctype", t["name"] or None, t["publicId"], t["systemId"], not t["correct"]))
    return R1.merge_chars(out)


def _compare_pending(h, st):
    """tokens under construction at a synchronisation point -> problem or None"""
    ct = h.currentToken
    if st.state.endswith("_end_tag_name") or "double_escape_" in st.state:
        if _low(getattr(h, "temporaryBuffer", "")) != _low(st.temp):
            return "TEMP"
    if st.tag_kind is not None and not st.state.endswith("_end_tag_name") \
            and not st.state.endswith("_end_tag_open"):
        if ct is None or ct["type"] not in (T_START, T_END):
            return "NOTAG"
        kind = "start" if ct["type"] == T_START else "end"
        attrs = [[_low(a), b] for a, b in ct["data"]]
        if (kind, _low(ct["name"]), attrs, ct["selfClosing"]) != \
                (st.tag_kind, st.tag_name, st.attrs, st.self_closing):
            return "TAG"
    if st.comment is not None and st.state != "bogus_comment":
        if ct is None or ct["type"] != T_COMMENT or ct["data"] != st.comment:
            return "COMMENT"
    if st.dt_active:
        if ct is None or ct["type"] != T_DOCTYPE or \
                (_low(ct["name"]) or None, ct["publicId"], ct["systemId"], not ct["correct"]) != \
                (st.dt_name, st.dt_public, st.dt_system, st.dt_force_quirks):
            return "DOCTYPE"
    return None


_AHEAD_OK = frozenset([
    "afterDoctypePublicKeywordState", "afterDoctypeSystemKeywordState", "markupDeclarationOpenState",
])


def lockstep(inp, initial, last, cdata):
    """-> (number of sync points, max extra non-consuming R1 steps, list of problems)"""
    from collections import deque
    src = _Source(inp)
    h = HTMLTokenizer(src, parser=StubParser(cdata))
    h.state = getattr(h, INITIAL2METHOD[initial])
    if last is not None:
        h.currentToken = {"type": "startTag", "name": last}
    h.tokenQueue = deque()
    errors_dropped = []
    st = R1.new_state(initial, last, cdata)
    i = 0
    nsync = 0
    maxextra = 0
    problems = []
    guard = 0
    while True:
        guard += 1
        if guard > 20 * (len(inp) + 5):
            problems.append(("NONTERMINATION", inp))
            break
        before = h.state.__name__
        alive = h.state()
        for t in list(h.tokenQueue):
            if t["type"] == T_ERROR:
                h.tokenQueue.remove(t)
                errors_dropped.append(t)
        stream = h.stream
        p = 0 if not src.given else len(inp) - (stream.chunkSize - stream.chunkOffset)
        name = h.state.__name__
        target = R1.IMPL2SPEC.get(name) or R1.IMPL2SPEC_EXTRA[name]
        extra = 0
        while not st.done:
            if i < p or not alive:
                i = R1.step(st, inp, i)
            elif i == p and R1.SPEC_CANON.get(st.state, st.state) != target and extra < 4:
                i = R1.step(st, inp, i)
                extra += 1
            else:
                break
        maxextra = max(maxextra, extra)
        if not alive:
            break
        if st.done:
            continue            # G3: html5lib still has to notice EOF in dataState
        if i > p:
            if before not in _AHEAD_OK:
                problems.append(("AHEAD", before, name, st.state, inp))
            continue
        nsync += 1
        if R1.SPEC_CANON.get(st.state, st.state) != target:
            problems.append(("STATE", before, name, st.state, inp))
            continue
        if name in R1.IMPL_RETURN_STATE and st.return_state != R1.IMPL_RETURN_STATE[name]:
            problems.append(("RETURN_STATE", before, name, st.return_state, inp))
        if _convert_queue(h.tokenQueue) != R1.merge_chars(st.out):
            problems.append(("OUT", before, name, st.state, inp))
        pend = _compare_pending(h, st)
        if pend is not None:
            problems.append((pend, before, name, st.state, inp))
    if _convert_queue(h.tokenQueue) + [("EOF",)] != R1.merge_chars(st.out):
        problems.append(("FINAL", inp))
    return nsync, maxextra, problems


def _lock_worker(cases):
    nsync = 0
    mx = 0
    probs = []
    n = 0
    for s, initial, last, cd in cases:
        if explain(s, initial, last, cd):
            continue
        a, b, c = lockstep(s, initial, last, cd)
        n += 1
        nsync += a
        mx = max(mx, b)
        probs += [(x, (initial, last, cd)) for x in c]
    return n, nsync, mx, probs


# ---------------------------------------------------------------------------
# (a) hand-written cases

def _doctype_cases():
    res = []
    names = ["", " ", "html", " html", " HtMl", " \x00x", "html ", " a b", " é"]
    kws = ["", " PUBLIC", " SYSTEM", "PUBLIC", " public", " system", " PUBLI", " SYSTE", " PUBLICX", " pUbLiC"]
    ids1 = ["", " ", '"a"', "'a'", ' "a"', " 'a'", ' "a', " 'a", " a", ' "a>b"', ' "\x00"', ' ""', " ''"]
    ids2 = ["", " ", '"s"', "'s'", ' "s"', " 's'", ' "s', " x", ' "s" x', ' "s" ', " 's>'"]
    tails = [">", "", ">x"]
    for n in names:
        for t in tails:
            res.append("<!DOCTYPE" + n + t)
    for k in kws:
        for a in ids1:
            for t in tails:
                res.append("<!DOCTYPE html" + k + a + t)
    for a in ['"a"', " 'a'", ' "a"']:
        for b in ids2:
            for t in tails:
                res.append("<!DOCTYPE html PUBLIC" + a + b + t)
    for b in ids2:
        for t in tails:
            res.append("<!doctype html SYSTEM" + b + t)
    res += ["<!DOCTYPE html x>", "<!DOCTYPE html x", "<!DOCTYPE html \x00>", "<!DOCTYPE html x\x00y>z",
            "<!DOCTYP html>", "<!DOCTYPEhtml>", "<!DOCTYPE\thtml\nSYSTEM\x0c'x'\t>", "<!dOcTyPe A>",
            "<!DOCTYPE h\x00tml>", "<!DOCTYPE html PUBLIC 'a\x00b' 'c\x00d'>", "<!DOCTYPE html PUBLIC'a''b'>",
            "<!DOCTYPE html PUBLIC\"a\"\"b\">", "<!DOCTYPE html SYSTEM'a'>", "<!DOCTYPE html SYSTEM\"a\">",
            "<!DOCTYPE html PUBLIC>", "<!DOCTYPE html SYSTEM>", "<!DOCTYPE html PUBLIC >", "<!DOCTYPE html SYSTEM >",
            "<!DOCTYPE html PUBLIC \"a\" \"b\" c>", "<!DOCTYPE html PUBLIC \"a\" \"b\" c", "<!DOCTYPE html P>",
            "<!DOCTYPE html S>", "<!DOCTYPE html PUBLIC \"-//W3C//DTD HTML 4.01//EN\" \"http://www.w3.org/TR/html4/strict.dtd\">"]
    return res


def _tag_cases():
    return [
        "<a>", "<A>", "<aB cD=eF>", "<a/>", "<a />", "<a/ >", "<a//>", "<a/b>", "<a/=>", "</a>", "</A >", "</a/>",
        "</a b=c>", "</a b='c'/>", "<a b>", "<a b c>", "<a b=c>", "<a b = c>", "<a b='c'>", "<a b=\"c\">",
        "<a b='c'd>", "<a b='c'/>", "<a b='c' />", "<a b=\"c\"d=e>", "<a b=>", "<a b= >", "<a b=c/>", "<a b=c />",
        "<a b=c/d>", "<a b=c d=e f='g' h=\"i\">", "<a b=c b=d>", "<a b=c B=d>", "<a b b>", "<a b='1' c b=2 c=3 b>",
        "<a B=1 b=2>", "<a =>", "<a =b>", "<a ==b>", "<a =b=c>", "<a b==c>", "<a b=\"c'>", "<a b='c\">",
        "<a \"b>", "<a 'b>", "<a <b>", "<a b\"c'd<e=f>", "<a b \"c>", "<a b '>", "<a b <>", "<a b='c'\"d>",
        "<a b=c\"d'e<f=g`h>", "<a b=`c`>", "<a b=\"c\"\"d\">", "<a b=<c>", "<a b==>", "<a b=&>", "<a b= &amp;>",
        "<a\tb\n=\x0c'c'\t>", "<a\x00b>", "<a \x00b=\x00>", "<a b\x00=c\x00>", "<a b='\x00' c=\"\x00\">",
        "<a b \x00>", "<a b=\x00c>", "<\x00a>", "</\x00a>", "<a/\x00>", "<a b='c'\x00>",
        "<>", "</>", "< a>", "</ a>", "<1>", "</1>", "<?>", "<?x y?>", "<?", "<!>", "<!", "<!x>", "<!-", "<!->",
        "<a", "<a ", "<a b", "<a b ", "<a b=", "<a b= ", "<a b=c", "<a b='c", "<a b=\"c", "<a b='c'", "<a/",
        "</", "</a", "</a ", "<", "a<b", "a<", "a</", "<a><b></b></a>", "<a>x<b>y</b>z</a>", "<é>", "<aé b́=ć>",
        "<a😀 😀=😀>", "<a b=c>d&amp;e<f g='h&amp;i'>", "<a\n>", "<a\x0c/>", "<a b=c\nd=e>", "<a b='c\nd'>",
        "<a></a >", "<div id=x class=\"y z\" data-q='r' hidden/>", "<a b=c>>", "<a>>", "<<a>", "<a<b>", "<a b<c=d>",
        "</a<b>", "</a b<c>", "<a/b/c>", "<a b/c=d>", "<a b=c'd>", "<a b= 'c'>", "<a b ='c'>", "<a b\n=\n'c'>",
        "<a b=\"\">", "<a b=''>", "<a b='' c>", "<a ''>", "<a b=\"x\" b='y' b=z b>", "<\u212a>", "<a\u212a b\u212a=\u212a>",
    ]


def _comment_cases():
    return [
        "<!---->", "<!-->", "<!--->", "<!---", "<!--", "<!----", "<!-----", "<!----->", "<!------>", "<!-- -->",
        "<!--x-->", "<!--x--", "<!--x-", "<!--x", "<!--x->", "<!--x--y-->", "<!--x--->", "<!--x---->", "<!--x-y-->",
        "<!--x--!>", "<!--x--!", "<!--x--!y-->", "<!--x--!-->", "<!--x--!->", "<!--x--!--!>", "<!----!>", "<!---!>",
        "<!--!>", "<!--!-->", "<!--x--!-", "<!--x--!--", "<!--x--!---", "<!--x--!>y",
        "<!--<!---->", "<!--<!-->", "<!--<!--->", "<!--<!-- x -->", "<!--<!--x--!>", "<!--<!--", "<!--<!-", "<!--<!",
        "<!--<", "<!--<<!-->", "<!--<<<-->", "<!--<!x-->", "<!--<!-x-->", "<!--<!--x-->", "<!--<!--->x-->",
        "<!--<!--!>", "<!--<!--!-->", "<!--a<!--b-->c-->", "<!--<-->", "<!--<!>-->", "<!--<!-->x-->",
        "<!-- <!-- --> -->", "<!--<a>-->", "<!--</a>-->", "<!--&amp;-->", "<!-->x-->", "<!--->x-->",
        "<!--\x00-->", "<!---\x00-->", "<!--x\x00-->", "<!--x-\x00-->", "<!--x--\x00-->", "<!--x--!\x00-->",
        "<!--<\x00-->", "<!--<!\x00-->", "<!--<!-\x00-->", "<!--<!--\x00-->", "<!--\x00", "<!---\x00",
        "<!--\x00->", "<!---\x00->", "<!--\x00>", "<!---\x00>", "<!--\x00\x00-->", "<!--\x00--->", "<!---\x00--->",
        "<!--\x00-", "<!--\x00--", "<!--\x00--!>", "<!---\x00--!>", "<!---\x00-", "<!---\x00--",
        "<!x-->", "<!-x-->", "<! -->", "<!- -->", "<!doc>", "<!\x00>", "<!a\x00b>", "<!a", "<!>b", "<!-a->",
        "</ x>", "</\x00x>", "</-->", "<?xml version='1.0'?>", "<?\x00?>", "<?-->", "</!-->", "</?>",
        "<![CDATA[x]]>", "<![CDATA[", "<![CDATA[]]>", "<![cdata[x]]>", "<![CDATA x]]>", "<![CDAT", "<![",
        "<![CDATA[x", "<![CDATA[x]", "<![CDATA[x]]", "<![CDATA[x]]]>", "<![CDATA[x]]]]>", "<![CDATA[]]]>",
        "<![CDATA[x]y]]>", "<![CDATA[x]]y]]>", "<![CDATA[x]>y]]>", "<![CDATA[]>]]>", "<![CDATA[>]]>", "<![CDATA[]]>>",
        "<![CDATA[<a>&amp;</a>]]>", "<![CDATA[x]]><b>", "<![CDATA[\x00]]>", "<![CDATA[a\x00b]]>", "<![CDATA[]\x00]>]]>",
        "<![CDATA[\x00", "<![CDATA[]]\x00]]>", "a<![CDATA[b]]>c", "<![CDATA[]] >]]>", "<![CDATA[é😀]]>",
        "<![CDATA[x]]><![CDATA[y]]>", "<![CDATA[ \n]]>", "<![CDATA[]", "<![CDATA[]]", "<![CDATA[]]]",
    ]


def _charref_cases():
    refs = ["&", "&;", "&a", "&a;", "&amp", "&amp;", "&AMP", "&AMP;", "&ampx", "&amp=", "&amp;=", "&amp x", "&amp1",
            "&lt", "&lt;", "&ltx", "&not", "&not;", "&notin", "&notin;", "&noti", "&notit;", "&notx", "&no",
            "&copy", "&copy;", "&copyx", "&copy=", "&Copy;", "&xyz;", "&xyz", "&x;", "&1;", "&a1;",
            "&NotEqualTilde;", "&NotEqualTilde", "&CounterClockwiseContourIntegral;", "&CounterClockwiseContourIntegra",
            "&nvlt;", "&bne;", "&acE;", "&fjlig;", "&ThickSpace;",
            "&#", "&#;", "&#x", "&#X", "&#x;", "&#xg", "&#a", "&# ", "&#x ", "&#65", "&#65;", "&#x41", "&#x41;", "&#X41;",
            "&#x4a", "&#x4A;", "&#65x", "&#x41g", "&#0", "&#0;", "&#x0;", "&#00000;", "&#13;", "&#xD;", "&#10;", "&#9;",
            "&#12;", "&#11;", "&#1;", "&#31;", "&#127;", "&#128;", "&#x80;", "&#x81;", "&#x8d;", "&#x9f;", "&#159;",
            "&#x9e", "&#xa0;", "&#xFFFE;", "&#xFFFF;", "&#xFDD0;", "&#x1FFFE;", "&#x10FFFF;", "&#x110000;",
            "&#1114112;", "&#99999999999999999999;", "&#xFFFFFFFFFFFFFFFFFF;", "&#xD800;", "&#xDFFF;", "&#55296",
            "&#xD7FF;", "&#xE000;", "&#x10000;", "&#x1F600;", "&#128512", "&#x00041;", "&#0065;", "&#65;&#66;",
            "&#-1;", "&#+1;", "&#x-1;", "&#1.5;", "&#x1g;", "&&amp;", "&amp;&", "&<", "&\x00", "&é;", "&aé;",
            "&ampé", "&amp😀", "&\t", "&\n", "&>", "&'", "&\"", "&=", "&&", "&a&b", "&#&", "&#x&", "&#<", "&#x<",
            "&lt&gt", "&lt;&gt;", "&ltgt;", "&lang;", "&lang", "&langl", "&sup1", "&sup1;", "&sup12", "&frac12x",
            "&there4;", "&there4", "&blk12;", "&blk1", "&Eacute", "&EacuteX", "&eacute=", "&Eacut", "&zwnj;", "&ZeroWidthSpace;"]
    res = []
    for r in refs:
        res.append(r)
        res.append("x" + r + "y")
        res.append("<a b=" + r + ">")
        res.append("<a b=" + r + "y>")
        res.append("<a b='" + r + "'>")
        res.append("<a b='x" + r + "y' c>")
        res.append("<a b=\"" + r + "\">")
        res.append("<a b=\"" + r)
        res.append("<a b='" + r)
        res.append("<a b=" + r)
        res.append("<a b=x" + r + "=>")
    return res


def _text_cases():
    """(input, initial, last_start_tag)"""
    res = []
    bodies = [
        "x</{t}>y", "x</{T}>y", "x</{t} >y", "x</{t}/>y", "x</{t} a=b>y", "x</{t}\n>", "x</{t}\t/>", "x</{t}\x0c>",
        "x</{t}x>y", "x</{t}", "x</{t} ", "x</{t}/", "x</", "x<", "x</>", "x</ {t}>", "x</{t}1>", "x</{t}-->",
        "x<{t}>", "x</y>", "x</y >z</{t}>", "</{t}></{t}>", "</{t}><a>", "<a></a></{t}>x<b>", "x</{t}\x00>",
        "\x00</{t}>", "x\x00y", "</\x00{t}>", "<\x00/{t}>", "x&amp;y</{t}>", "&lt;/{t}>", "x</{t}&", "x</{t}<",
        "<!--x--></{t}>", "</{t}é>", "</é{t}>", "</{t} a='b' c=\"d\" e>f", "</{t} a=b/>", "<</{t}>", "</</{t}>",
        "</{t}</{t}>", "x</{t}=>", "</{u}>", "</{t}{t}>",
    ]
    for initial, tag in (("rcdata", "title"), ("rcdata", "textarea"), ("rawtext", "xmp"), ("rawtext", "style"),
                         ("script_data", "script"), ("plaintext", "plaintext"), ("data", "a")):
        for b in bodies:
            s = b.replace("{t}", tag).replace("{T}", tag.upper()).replace("{u}", tag[:-1])
            res.append((s, initial, tag))
            res.append((s, initial, None))
    # non-ASCII last start tag (KELVIN SIGN lower-cases to "k")
    for initial in ("rcdata", "rawtext", "script_data"):
        res.append(("x</k>y", initial, "\u212a"))
        res.append(("x</K>y", initial, "\u212a"))
        res.append(("x</\u212a>y", initial, "\u212a"))
        res.append(("x</ak>y", initial, "a\u212a"))
        res.append(("x</k>y", initial, "k"))
        res.append(("x</ſ>y", initial, "ſ"))
        res.append(("x</s>y", initial, "ſ"))
    scripts = [
        "<!--", "<!-", "<!", "<!-x", "<!--x", "<!-->", "<!--->", "<!---->", "<!-- -->", "<!--x-->y</script>",
        "<!--x</script>", "<!--x</script >y", "<!--x</script/>", "<!--x</scriptx>", "<!--x</scrip>", "<!--x</", "<!--x<",
        "<!--x</>", "<!--<script>", "<!--<script>x</script>y</script>", "<!--<script>x</script>-->y</script>z",
        "<!--<script >", "<!--<script/", "<!--<SCRIPT>x</SCRIPT>", "<!--<scriptx>y</script>", "<!--<scrip>y</script>",
        "<!--<script", "<!--<script>", "<!--<script>-", "<!--<script>--", "<!--<script>-->", "<!--<script>--x",
        "<!--<script>-x", "<!--<script><", "<!--<script></", "<!--<script></script", "<!--<script></script>",
        "<!--<script></script ", "<!--<script></script/", "<!--<script></scriptx>", "<!--<script></scrip>",
        "<!--<script></x>", "<!--<script><x>", "<!--<script><!--", "<!--<script>\x00", "<!--<script>-\x00", "<!--<script>--\x00",
        "<!--\x00", "<!---\x00", "<!--x-\x00", "<!--x--\x00", "<!--x-y", "<!--x--y", "<!--x---", "<!--x--->", "<!--x-<", "<!--x--<",
        "<!--x-</script>", "<!--x--</script>", "<!--<a>", "<!--<a", "<!--<1", "<!--<\x00", "<!--</\x00", "<!--</1",
        "<!--<script>x<\x00", "<!--<script></\x00", "<!--<script>---", "<!--<script>--->", "<!--<script>-<", "<!--<script>--<",
        "<!--<script>--</script>", "<!--<script>--</script>x</script>", "<!--<sCrIpT>x</ScRiPt>y</script>",
        "<!--<script\n>", "<!--<script\t>x</script\x0c>y", "<!--<scripté>", "<!--<é", "x<!y", "x<!-y", "<!-<", "<!<",
        "<!--x</script a=b>c", "<!--<script></script>x</script a='b'>c", "</script>", "</script", "</scr", "<script>",
        "<!--<script></script><script>x</script>-->", "<!--<script>x-->y</script>",
    ]
    for s in scripts:
        res.append((s, "script_data", "script"))
        res.append((s, "script_data", None))
    return res


def hand_cases():
    """-> list of (inp, initial, last_start_tag, cdata_allowed)"""
    base = []
    for s in _doctype_cases() + _tag_cases() + _comment_cases() + _charref_cases():
        base.append((s, "data", None))
    for s in _charref_cases()[::3]:
        base.append((s, "rcdata", "title"))
    for s in _comment_cases()[::4] + _tag_cases()[::5]:
        for initial, last in (("rcdata", "title"), ("rawtext", "xmp"), ("script_data", "script"), ("plaintext", None)):
            base.append((s, initial, last))
    base += _text_cases()
    res = []
    seen = set()

    def add(s, initial, last):
        for cd in (False, True):
            k = (s, initial, last, cd)
            if k not in seen:
                seen.add(k)
                res.append(k)

    nbase = 0
    for s, initial, last in base:
        nbase += 1
        add(s, initial, last)
        # EOF in every state: all proper prefixes
        for n in range(len(s)):
            add(s[:n], initial, last)
        # NUL in every context: inserted at, and substituted for, every position
        if len(s) <= 40:
            for n in range(len(s) + 1):
                add(s[:n] + "\x00" + s[n:], initial, last)
            for n in range(len(s)):
                add(s[:n] + "\x00" + s[n + 1:], initial, last)
    return nbase, res


# ---------------------------------------------------------------------------
# (b) random strings over a markup-relevant alphabet; (c) random fragment mixes

def alphabet():
    chars = list("<>/=!-?\"'&#;[] \t\n\x0c\x00aAzZxX09")
    for w in ("DOCTYPE", "PUBLIC", "SYSTEM", "CDATA", "script"):
        for ch in w:
            if ch not in chars:
                chars.append(ch)
    chars.append("é")        # one non-ASCII BMP character
    chars.append("\U0001F600")    # one astral character
    return chars


FRAGMENTS = [
    "<!DOCTYPE", "<!doctype", " PUBLIC", " SYSTEM", "PUBLIC", "SYSTEM", "public", " html", "<![CDATA[", "]]>", "]]", "]",
    "<!--", "-->", "--!>", "--", "-", "<!", "!", "<script", "</script", "<script>", "</script>", "</title", "</title>",
    "</xmp", "</xmp>", "<title>", "<xmp>", "</TITLE>", "</Script ", "<a", "</a", " b", "=", "'", "\"", " ", "\t", "\n", "/",
    ">", "<", "&", "&amp", "&amp;", "&lt", "&not", "&notin;", "&#", "&#x", "&#65", "&#x41", "&#0;", "&#x80;", "&#xD800;",
    ";", "x", "A", "1", "\x00", "?", "é", "\U0001F600", "`", "c='d'", "e=\"f\"", "g=h",
]

CONFIGS = [
    (initial, last, cd)
    for initial, lasts in (("data", (None, "a")), ("rcdata", (None, "title")), ("rawtext", (None, "xmp")),
                           ("script_data", (None, "script")), ("plaintext", (None, "plaintext")))
    for last in lasts
    for cd in (False, True)
]


def _worker(job):
    kind, cfg_index, n, chunk_index = job
    initial, last, cd = CONFIGS[cfg_index]
    rng = random.Random("%s/%d/%d/%d" % (kind, SEED, cfg_index, chunk_index))
    alpha = alphabet()
    bad = []
    for _ in range(n):
        if kind == "chars":
            s = "".join(rng.choice(alpha) for _ in range(rng.randint(1, 12)))
        else:
            s = "".join(rng.choice(FRAGMENTS) for _ in range(rng.randint(1, 9)))
        r = check_one(s, initial, last, cd)
        if r is not None:
            bad.append(r)
    return (n, bad)


def main():
    ap = argparse.ArgumentParser()
    ap.add_argument("--random", type=int, default=200000, help="random char strings per configuration (20 configurations)")
    ap.add_argument("--frag", type=int, default=50000, help="random fragment mixes per configuration")
    ap.add_argument("--jobs", type=int, default=max(1, (os.cpu_count() or 2) - 1))
    ap.add_argument("--lock-frag", type=int, default=5000, help="random fragment mixes per configuration for the lock-step check")
    ap.add_argument("--no-lockstep", action="store_true")
    ap.add_argument("--show", type=int, default=40, help="max disagreements printed per class")
    args = ap.parse_args()

    total = 0
    accepted = {}
    unexplained = []

    def account(r):
        if r is None:
            return
        if r[0] == "accepted":
            accepted.setdefault(tuple(r[5]), []).append(r)
        else:
            unexplained.append(r)

    nbase, hand = hand_cases()
    for s, initial, last, cd in hand:
        account(check_one(s, initial, last, cd))
    total += len(hand)
    print("hand-written: %d base cases, %d inputs incl. prefixes / NUL variants / cdata flag" % (nbase, len(hand)))
    sys.stdout.flush()

    # r10_charref: trie walk == dict/set longest match, on every table key with
    # various continuations, every key prefix, and random entity-ish strings
    trie_bad = 0
    n_trie = 0
    rng = random.Random("trie/%d" % SEED)
    for k in R10.NAMED:
        for suf in ("", ";", "x", "=", "a;", "1", "\x00"):
            for pre in ("", "z"):
                t = pre + k + suf
                n_trie += 1
                if R10.longest_named_match(t, len(pre)) != R10.longest_named_match_dict(t, len(pre)):
                    trie_bad += 1
        for cut in range(len(k)):
            n_trie += 1
            if R10.longest_named_match(k[:cut], 0) != R10.longest_named_match_dict(k[:cut], 0):
                trie_bad += 1
    for _ in range(200000):
        t = "".join(rng.choice("abcdefgnotilpmsuAMPGT12;= ") for _ in range(rng.randint(0, 8)))
        n_trie += 1
        if R10.longest_named_match(t, 0) != R10.longest_named_match_dict(t, 0):
            trie_bad += 1
    print("r10_charref trie vs dict longest match: %d strings, %d mismatches" % (n_trie, trie_bad))

    # IMPL2SPEC must cover exactly html5lib's *State methods
    impl_states = set(n for n in dir(HTMLTokenizer) if n.endswith("State"))
    map_ok = (impl_states == set(R1.IMPL2SPEC)
              and all(v in R1.STATES for v in R1.IMPL2SPEC.values())
              and all(k in R1.STATES and v in R1.STATES for k, v in R1.SPEC_CANON.items())
              and set(R1.STATES) == set(R1.IMPL2SPEC.values()) | set(R1.SPEC_CANON))
    print("IMPL2SPEC covers the %d html5lib state methods and all %d R1 states: %s"
          % (len(impl_states), len(R1.STATES), map_ok))

    lock_problems = []
    if not args.no_lockstep:
        rng = random.Random("lock/%d" % SEED)
        lock_cases = list(hand)
        for ci in range(len(CONFIGS)):
            initial, last, cd = CONFIGS[ci]
            for _ in range(args.lock_frag):
                lock_cases.append(("".join(rng.choice(FRAGMENTS) for _ in range(rng.randint(1, 9))), initial, last, cd))
        parts = [lock_cases[k::args.jobs * 4] for k in range(args.jobs * 4)]
        n_l = 0
        n_sync = 0
        mx = 0
        with multiprocessing.Pool(args.jobs) as pool:
            for n, a, b, c in pool.imap_unordered(_lock_worker, parts):
                n_l += n
                n_sync += a
                mx = max(mx, b)
                lock_problems += c
        print("lock-step: %d inputs, %d synchronisation points, max extra non-consuming R1 steps %d, %d problems"
              % (n_l, n_sync, mx, len(lock_problems)))
        seen_kinds = set()
        for pr, cfg in sorted(lock_problems, key=lambda x: len(x[0][-1])):
            k = pr[:-1]
            if k not in seen_kinds:
                seen_kinds.add(k)
                print("   LOCKSTEP PROBLEM %r  e.g. %r %r" % (k, pr[-1], cfg))
    sys.stdout.flush()

    jobs = []
    CH = 10000
    for kind, n in (("chars", args.random), ("frag", args.frag)):
        for ci in range(len(CONFIGS)):
            done = 0
            k = 0
            while done < n:
                m = min(CH, n - done)
                jobs.append((kind, ci, m, k))
                done += m
                k += 1
    if jobs:
        with multiprocessing.Pool(args.jobs) as pool:
            for n, bad in pool.imap_unordered(_worker, jobs, chunksize=1):
                total += n
                for r in bad:
                    account(r)
    print("random: %d char strings + %d fragment mixes for each of %d configurations" % (args.random, args.frag, len(CONFIGS)))
    print("TOTAL inputs validated: %d" % total)

    for names, rs in sorted(accepted.items()):
        rs.sort(key=lambda r: (len(r[1]), r[1]))
        print("\naccepted html5lib deviation %s: %d inputs; shortest:" % ("+".join(names), len(rs)))
        for r in rs[:3]:
            print("   %r %r\n      R1      : %r\n      html5lib: %r" % (r[1], r[2], r[3], r[4]))
    if lock_problems or not map_ok or trie_bad:
        print("\nFAILED: lock-step / IMPL2SPEC / trie problems")
        return 1
    if unexplained:
        unexplained.sort(key=lambda r: (len(r[1]), r[1]))
        print("\nUNEXPLAINED disagreements: %d" % len(unexplained))
        for r in unexplained[:args.show]:
            print("   %r %r %r\n      R1      : %r\n      html5lib: %r" % (r[1], r[2], r[5], r[3], r[4]))
        return 1
    print("\nOK: no unexplained disagreements")
    return 0


if __name__ == "__main__":
    sys.exit(main())
