"""R1 -- independent reference implementation of the WHATWG HTML tokenization
algorithm (HTML Living Standard, section "Tokenization", text as of mid-2020),
written from the standard, one function per tokenizer state.

It is meant to be run *symbolically* side by side with single state-method calls
of html5lib's tokenizer, hence the restricted style:

  * dispatch is on `st.state`, always a concrete python str;
  * the input character is only ever compared directly (`c == "<"`,
    `"A" <= c <= "Z"`), lower-cased with `chr(ord(c) + 32)`;
  * no regexes, no str methods on input-derived strings, no sets/dicts keyed by
    input characters (r10_charref walks an immutable trie by `==` comparisons,
    so it does not hash input-derived strings either);
  * `TokState` is a plain attribute bag; no global mutable state.

Deliberate granularity choices (all documented in README.md):

  * step() performs exactly one state step of the standard, EXCEPT that the
    character reference states (character reference, named character reference,
    ambiguous ampersand, numeric character reference ... numeric character
    reference end) are collapsed into one step of the pseudo-state
    "character_reference", which delegates to r10_charref.consume().
  * The input is assumed newline-normalised (no CR handling here) and the
    "input stream preprocessing" parse errors are out of scope.
  * Parse errors are not emitted.

Token shapes appended to st.out:
    ("Character", s)                    one per emitted character
    ("StartTag", name, attrs, self_closing)   attrs: list of [name, value],
                                              duplicates removed, first wins
    ("EndTag", name)                    attributes / self-closing flag dropped
    ("Comment", data)
    ("Doctype", name|None, public|None, system|None, force_quirks)
    ("EOF",)
"""

try:
    from refs import r10_charref
except ImportError:          # run from inside refs/ (validate_r1.py)
    import r10_charref

REPLACEMENT = "�"


class TokState:
    """Plain attribute bag: the tokenizer's variables as named by the standard."""

    def __init__(self):
        self.state = "data"
        self.return_state = None
        self.temp = ""
        self.tag_kind = None        # "start" / "end" / None
        self.tag_name = ""
        self.attrs = []             # [[name, value], ...] incl. duplicates
        self.self_closing = False
        self.comment = None
        self.dt_name = None
        self.dt_public = None
        self.dt_system = None
        self.dt_force_quirks = False
        self.dt_active = False      # a DOCTYPE token is under construction
                                    # (extra to the requested interface)
        self.last_start_tag = None
        self.cdata_allowed = False
        self.out = []
        self.done = False


def new_state(initial="data", last_start_tag=None, cdata_allowed=False):
    st = TokState()
    st.state = initial
    st.last_start_tag = last_start_tag
    st.cdata_allowed = cdata_allowed
    return st


# ---------------------------------------------------------------------------
# character classes: direct comparisons only; c is None at EOF

def is_ws(c):
    """U+0009 TAB, U+000A LF, U+000C FF, U+0020 SPACE."""
    return c == "\t" or c == "\n" or c == "\x0c" or c == " "


def is_upper(c):
    return c is not None and "A" <= c <= "Z"


def is_lower(c):
    return c is not None and "a" <= c <= "z"


def is_alpha(c):
    return is_upper(c) or is_lower(c)


def to_lower(c):
    """ASCII-lowercase one character known to satisfy is_upper()."""
    return chr(ord(c) + 32)


def ascii_ci_match(inp, i, word):
    """Do the len(word) characters of inp starting at i match `word` (given
    in upper case, ASCII letters only) ASCII case-insensitively?"""
    n = len(word)
    if i + n > len(inp):
        return False
    k = 0
    while k < n:
        c = inp[i + k]
        w = word[k]
        if not (c == w or c == chr(ord(w) + 32)):
            return False
        k += 1
    return True


def exact_match(inp, i, word):
    n = len(word)
    if i + n > len(inp):
        return False
    k = 0
    while k < n:
        if inp[i + k] != word[k]:
            return False
        k += 1
    return True


# ---------------------------------------------------------------------------
# token construction / emission

def emit_char(st, s):
    st.out.append(("Character", s))


def emit_eof(st):
    st.out.append(("EOF",))
    st.done = True


def new_tag(st, kind):
    st.tag_kind = kind
    st.tag_name = ""
    st.attrs = []
    st.self_closing = False


def new_attr(st, name):
    st.attrs.append([name, ""])


def append_attr_name(st, s):
    a = st.attrs[len(st.attrs) - 1]
    a[0] = a[0] + s


def append_attr_value(st, s):
    a = st.attrs[len(st.attrs) - 1]
    a[1] = a[1] + s


def dedup_attrs(attrs):
    """"...if there is already an attribute on the token with the exact same
    name, then this is a duplicate-attribute parse error and the new attribute
    must be removed from the token."  Applied at emit time: first wins."""
    res = []
    for a in attrs:
        dup = False
        for b in res:
            if b[0] == a[0]:
                dup = True
                break
        if not dup:
            res.append([a[0], a[1]])
    return res


def emit_tag(st):
    if st.tag_kind == "start":
        st.out.append(("StartTag", st.tag_name, dedup_attrs(st.attrs), st.self_closing))
        st.last_start_tag = st.tag_name
    else:
        # end tag: attributes (end-tag-with-attributes) and the self-closing
        # flag (end-tag-with-trailing-solidus) are parse errors and ignored
        st.out.append(("EndTag", st.tag_name))
    st.tag_kind = None


def new_comment(st, data):
    st.comment = data


def emit_comment(st):
    st.out.append(("Comment", st.comment))
    st.comment = None


def new_doctype(st):
    st.dt_active = True
    st.dt_name = None
    st.dt_public = None
    st.dt_system = None
    st.dt_force_quirks = False


def emit_doctype(st):
    st.out.append(("Doctype", st.dt_name, st.dt_public, st.dt_system, st.dt_force_quirks))
    st.dt_active = False


def is_appropriate_end_tag(st):
    """An appropriate end tag token is an end tag token whose tag name matches
    the tag name of the last start tag to have been emitted from this
    tokenizer, if any."""
    return st.last_start_tag is not None and st.tag_name == st.last_start_tag


def enter_charref(st, return_state):
    st.return_state = return_state
    st.state = "character_reference"


# ---------------------------------------------------------------------------
# 13.2.5.1 - 13.2.5.5  content states

def s_data(st, inp, i, c):
    if c is None:
        emit_eof(st)
        return i
    if c == "&":
        enter_charref(st, "data")
    elif c == "<":
        st.state = "tag_open"
    else:
        # includes U+0000: unexpected-null-character parse error, but the
        # current input character is emitted unchanged in the data state
        emit_char(st, c)
    return i + 1


def s_rcdata(st, inp, i, c):
    if c is None:
        emit_eof(st)
        return i
    if c == "&":
        enter_charref(st, "rcdata")
    elif c == "<":
        st.state = "rcdata_less_than_sign"
    elif c == "\x00":
        emit_char(st, REPLACEMENT)
    else:
        emit_char(st, c)
    return i + 1


def s_rawtext(st, inp, i, c):
    if c is None:
        emit_eof(st)
        return i
    if c == "<":
        st.state = "rawtext_less_than_sign"
    elif c == "\x00":
        emit_char(st, REPLACEMENT)
    else:
        emit_char(st, c)
    return i + 1


def s_script_data(st, inp, i, c):
    if c is None:
        emit_eof(st)
        return i
    if c == "<":
        st.state = "script_data_less_than_sign"
    elif c == "\x00":
        emit_char(st, REPLACEMENT)
    else:
        emit_char(st, c)
    return i + 1


def s_plaintext(st, inp, i, c):
    if c is None:
        emit_eof(st)
        return i
    if c == "\x00":
        emit_char(st, REPLACEMENT)
    else:
        emit_char(st, c)
    return i + 1


# ---------------------------------------------------------------------------
# 13.2.5.6 - 13.2.5.8  tags

def s_tag_open(st, inp, i, c):
    if c is None:
        # eof-before-tag-name
        emit_char(st, "<")
        emit_eof(st)
        return i
    if c == "!":
        st.state = "markup_declaration_open"
        return i + 1
    if c == "/":
        st.state = "end_tag_open"
        return i + 1
    if is_alpha(c):
        new_tag(st, "start")
        st.state = "tag_name"
        return i
    if c == "?":
        # unexpected-question-mark-instead-of-tag-name
        new_comment(st, "")
        st.state = "bogus_comment"
        return i
    # invalid-first-character-of-tag-name
    emit_char(st, "<")
    st.state = "data"
    return i


def s_end_tag_open(st, inp, i, c):
    if c is None:
        # eof-before-tag-name
        emit_char(st, "<")
        emit_char(st, "/")
        emit_eof(st)
        return i
    if is_alpha(c):
        new_tag(st, "end")
        st.state = "tag_name"
        return i
    if c == ">":
        # missing-end-tag-name
        st.state = "data"
        return i + 1
    # invalid-first-character-of-tag-name
    new_comment(st, "")
    st.state = "bogus_comment"
    return i


def s_tag_name(st, inp, i, c):
    if c is None:
        # eof-in-tag
        emit_eof(st)
        return i
    if is_ws(c):
        st.state = "before_attribute_name"
    elif c == "/":
        st.state = "self_closing_start_tag"
    elif c == ">":
        st.state = "data"
        emit_tag(st)
    elif is_upper(c):
        st.tag_name = st.tag_name + to_lower(c)
    elif c == "\x00":
        st.tag_name = st.tag_name + REPLACEMENT
    else:
        st.tag_name = st.tag_name + c
    return i + 1


# ---------------------------------------------------------------------------
# 13.2.5.9 - 13.2.5.14  RCDATA / RAWTEXT end tags (shared helpers)

def _lt_sign(st, i, c, text_state, end_tag_open_state):
    if c == "/":
        st.temp = ""
        st.state = end_tag_open_state
        return i + 1
    emit_char(st, "<")
    st.state = text_state
    return i


def _end_tag_open(st, i, c, text_state, end_tag_name_state):
    if is_alpha(c):
        new_tag(st, "end")
        st.state = end_tag_name_state
        return i
    emit_char(st, "<")
    emit_char(st, "/")
    st.state = text_state
    return i


def _end_tag_name(st, i, c, text_state):
    if is_ws(c):
        if is_appropriate_end_tag(st):
            st.state = "before_attribute_name"
            return i + 1
    elif c == "/":
        if is_appropriate_end_tag(st):
            st.state = "self_closing_start_tag"
            return i + 1
    elif c == ">":
        if is_appropriate_end_tag(st):
            st.state = "data"
            emit_tag(st)
            return i + 1
    elif is_upper(c):
        st.tag_name = st.tag_name + to_lower(c)
        st.temp = st.temp + c
        return i + 1
    elif is_lower(c):
        st.tag_name = st.tag_name + c
        st.temp = st.temp + c
        return i + 1
    # anything else (incl. EOF and the non-appropriate cases above)
    emit_char(st, "<")
    emit_char(st, "/")
    for ch in st.temp:
        emit_char(st, ch)
    st.tag_kind = None
    st.state = text_state
    return i


def s_rcdata_less_than_sign(st, inp, i, c):
    return _lt_sign(st, i, c, "rcdata", "rcdata_end_tag_open")


def s_rcdata_end_tag_open(st, inp, i, c):
    return _end_tag_open(st, i, c, "rcdata", "rcdata_end_tag_name")


def s_rcdata_end_tag_name(st, inp, i, c):
    return _end_tag_name(st, i, c, "rcdata")


def s_rawtext_less_than_sign(st, inp, i, c):
    return _lt_sign(st, i, c, "rawtext", "rawtext_end_tag_open")


def s_rawtext_end_tag_open(st, inp, i, c):
    return _end_tag_open(st, i, c, "rawtext", "rawtext_end_tag_name")


def s_rawtext_end_tag_name(st, inp, i, c):
    return _end_tag_name(st, i, c, "rawtext")


# ---------------------------------------------------------------------------
# 13.2.5.15 - 13.2.5.31  script data

def s_script_data_less_than_sign(st, inp, i, c):
    if c == "/":
        st.temp = ""
        st.state = "script_data_end_tag_open"
        return i + 1
    if c == "!":
        st.state = "script_data_escape_start"
        emit_char(st, "<")
        emit_char(st, "!")
        return i + 1
    emit_char(st, "<")
    st.state = "script_data"
    return i


def s_script_data_end_tag_open(st, inp, i, c):
    return _end_tag_open(st, i, c, "script_data", "script_data_end_tag_name")


def s_script_data_end_tag_name(st, inp, i, c):
    return _end_tag_name(st, i, c, "script_data")


def s_script_data_escape_start(st, inp, i, c):
    if c == "-":
        st.state = "script_data_escape_start_dash"
        emit_char(st, "-")
        return i + 1
    st.state = "script_data"
    return i


def s_script_data_escape_start_dash(st, inp, i, c):
    if c == "-":
        st.state = "script_data_escaped_dash_dash"
        emit_char(st, "-")
        return i + 1
    st.state = "script_data"
    return i


def s_script_data_escaped(st, inp, i, c):
    if c is None:
        # eof-in-script-html-comment-like-text
        emit_eof(st)
        return i
    if c == "-":
        st.state = "script_data_escaped_dash"
        emit_char(st, "-")
    elif c == "<":
        st.state = "script_data_escaped_less_than_sign"
    elif c == "\x00":
        emit_char(st, REPLACEMENT)
    else:
        emit_char(st, c)
    return i + 1


def s_script_data_escaped_dash(st, inp, i, c):
    if c is None:
        emit_eof(st)
        return i
    if c == "-":
        st.state = "script_data_escaped_dash_dash"
        emit_char(st, "-")
    elif c == "<":
        st.state = "script_data_escaped_less_than_sign"
    elif c == "\x00":
        st.state = "script_data_escaped"
        emit_char(st, REPLACEMENT)
    else:
        st.state = "script_data_escaped"
        emit_char(st, c)
    return i + 1


def s_script_data_escaped_dash_dash(st, inp, i, c):
    if c is None:
        emit_eof(st)
        return i
    if c == "-":
        emit_char(st, "-")
    elif c == "<":
        st.state = "script_data_escaped_less_than_sign"
    elif c == ">":
        st.state = "script_data"
        emit_char(st, ">")
    elif c == "\x00":
        st.state = "script_data_escaped"
        emit_char(st, REPLACEMENT)
    else:
        st.state = "script_data_escaped"
        emit_char(st, c)
    return i + 1


def s_script_data_escaped_less_than_sign(st, inp, i, c):
    if c == "/":
        st.temp = ""
        st.state = "script_data_escaped_end_tag_open"
        return i + 1
    if is_alpha(c):
        st.temp = ""
        emit_char(st, "<")
        st.state = "script_data_double_escape_start"
        return i
    emit_char(st, "<")
    st.state = "script_data_escaped"
    return i


def s_script_data_escaped_end_tag_open(st, inp, i, c):
    return _end_tag_open(st, i, c, "script_data_escaped", "script_data_escaped_end_tag_name")


def s_script_data_escaped_end_tag_name(st, inp, i, c):
    return _end_tag_name(st, i, c, "script_data_escaped")


def _double_escape_edge(st, i, c, if_script, otherwise):
    """Shared body of 'script data double escape start' / '... end'."""
    if is_ws(c) or c == "/" or c == ">":
        if st.temp == "script":
            st.state = if_script
        else:
            st.state = otherwise
        emit_char(st, c)
        return i + 1
    if is_upper(c):
        st.temp = st.temp + to_lower(c)
        emit_char(st, c)
        return i + 1
    if is_lower(c):
        st.temp = st.temp + c
        emit_char(st, c)
        return i + 1
    st.state = otherwise
    return i


def s_script_data_double_escape_start(st, inp, i, c):
    return _double_escape_edge(st, i, c, "script_data_double_escaped", "script_data_escaped")


def s_script_data_double_escaped(st, inp, i, c):
    if c is None:
        emit_eof(st)
        return i
    if c == "-":
        st.state = "script_data_double_escaped_dash"
        emit_char(st, "-")
    elif c == "<":
        st.state = "script_data_double_escaped_less_than_sign"
        emit_char(st, "<")
    elif c == "\x00":
        emit_char(st, REPLACEMENT)
    else:
        emit_char(st, c)
    return i + 1


def s_script_data_double_escaped_dash(st, inp, i, c):
    if c is None:
        emit_eof(st)
        return i
    if c == "-":
        st.state = "script_data_double_escaped_dash_dash"
        emit_char(st, "-")
    elif c == "<":
        st.state = "script_data_double_escaped_less_than_sign"
        emit_char(st, "<")
    elif c == "\x00":
        st.state = "script_data_double_escaped"
        emit_char(st, REPLACEMENT)
    else:
        st.state = "script_data_double_escaped"
        emit_char(st, c)
    return i + 1


def s_script_data_double_escaped_dash_dash(st, inp, i, c):
    if c is None:
        emit_eof(st)
        return i
    if c == "-":
        emit_char(st, "-")
    elif c == "<":
        st.state = "script_data_double_escaped_less_than_sign"
        emit_char(st, "<")
    elif c == ">":
        st.state = "script_data"
        emit_char(st, ">")
    elif c == "\x00":
        st.state = "script_data_double_escaped"
        emit_char(st, REPLACEMENT)
    else:
        st.state = "script_data_double_escaped"
        emit_char(st, c)
    return i + 1


def s_script_data_double_escaped_less_than_sign(st, inp, i, c):
    if c == "/":
        st.temp = ""
        st.state = "script_data_double_escape_end"
        emit_char(st, "/")
        return i + 1
    st.state = "script_data_double_escaped"
    return i


def s_script_data_double_escape_end(st, inp, i, c):
    return _double_escape_edge(st, i, c, "script_data_escaped", "script_data_double_escaped")


# ---------------------------------------------------------------------------
# 13.2.5.32 - 13.2.5.40  attributes

def s_before_attribute_name(st, inp, i, c):
    if is_ws(c):
        return i + 1
    if c is None or c == "/" or c == ">":
        st.state = "after_attribute_name"
        return i
    if c == "=":
        # unexpected-equals-sign-before-attribute-name
        new_attr(st, c)
        st.state = "attribute_name"
        return i + 1
    new_attr(st, "")
    st.state = "attribute_name"
    return i


def s_attribute_name(st, inp, i, c):
    if c is None or is_ws(c) or c == "/" or c == ">":
        st.state = "after_attribute_name"
        return i
    if c == "=":
        st.state = "before_attribute_value"
    elif is_upper(c):
        append_attr_name(st, to_lower(c))
    elif c == "\x00":
        append_attr_name(st, REPLACEMENT)
    else:
        # '"', "'", "<": unexpected-character-in-attribute-name, then
        # treated as "anything else"
        append_attr_name(st, c)
    return i + 1


def s_after_attribute_name(st, inp, i, c):
    if c is None:
        # eof-in-tag
        emit_eof(st)
        return i
    if is_ws(c):
        return i + 1
    if c == "/":
        st.state = "self_closing_start_tag"
        return i + 1
    if c == "=":
        st.state = "before_attribute_value"
        return i + 1
    if c == ">":
        st.state = "data"
        emit_tag(st)
        return i + 1
    new_attr(st, "")
    st.state = "attribute_name"
    return i


def s_before_attribute_value(st, inp, i, c):
    if is_ws(c):
        return i + 1
    if c == '"':
        st.state = "attribute_value_double_quoted"
        return i + 1
    if c == "'":
        st.state = "attribute_value_single_quoted"
        return i + 1
    if c == ">":
        # missing-attribute-value
        st.state = "data"
        emit_tag(st)
        return i + 1
    st.state = "attribute_value_unquoted"
    return i


def s_attribute_value_double_quoted(st, inp, i, c):
    if c is None:
        emit_eof(st)
        return i
    if c == '"':
        st.state = "after_attribute_value_quoted"
    elif c == "&":
        enter_charref(st, "attribute_value_double_quoted")
    elif c == "\x00":
        append_attr_value(st, REPLACEMENT)
    else:
        append_attr_value(st, c)
    return i + 1


def s_attribute_value_single_quoted(st, inp, i, c):
    if c is None:
        emit_eof(st)
        return i
    if c == "'":
        st.state = "after_attribute_value_quoted"
    elif c == "&":
        enter_charref(st, "attribute_value_single_quoted")
    elif c == "\x00":
        append_attr_value(st, REPLACEMENT)
    else:
        append_attr_value(st, c)
    return i + 1


def s_attribute_value_unquoted(st, inp, i, c):
    if c is None:
        emit_eof(st)
        return i
    if is_ws(c):
        st.state = "before_attribute_name"
    elif c == "&":
        enter_charref(st, "attribute_value_unquoted")
    elif c == ">":
        st.state = "data"
        emit_tag(st)
    elif c == "\x00":
        append_attr_value(st, REPLACEMENT)
    else:
        # '"', "'", "<", "=", "`": unexpected-character-in-unquoted-
        # attribute-value, then treated as "anything else"
        append_attr_value(st, c)
    return i + 1


def s_after_attribute_value_quoted(st, inp, i, c):
    if c is None:
        emit_eof(st)
        return i
    if is_ws(c):
        st.state = "before_attribute_name"
        return i + 1
    if c == "/":
        st.state = "self_closing_start_tag"
        return i + 1
    if c == ">":
        st.state = "data"
        emit_tag(st)
        return i + 1
    # missing-whitespace-between-attributes
    st.state = "before_attribute_name"
    return i


def s_self_closing_start_tag(st, inp, i, c):
    if c is None:
        emit_eof(st)
        return i
    if c == ">":
        st.self_closing = True
        st.state = "data"
        emit_tag(st)
        return i + 1
    # unexpected-solidus-in-tag
    st.state = "before_attribute_name"
    return i


# ---------------------------------------------------------------------------
# 13.2.5.41 - 13.2.5.52  comments

def s_bogus_comment(st, inp, i, c):
    if c is None:
        emit_comment(st)
        emit_eof(st)
        return i
    if c == ">":
        st.state = "data"
        emit_comment(st)
    elif c == "\x00":
        st.comment = st.comment + REPLACEMENT
    else:
        st.comment = st.comment + c
    return i + 1


def s_markup_declaration_open(st, inp, i, c):
    if exact_match(inp, i, "--"):
        new_comment(st, "")
        st.state = "comment_start"
        return i + 2
    if ascii_ci_match(inp, i, "DOCTYPE"):
        st.state = "doctype"
        return i + 7
    if exact_match(inp, i, "[CDATA["):
        if st.cdata_allowed:
            st.state = "cdata_section"
        else:
            # cdata-in-html-content
            new_comment(st, "[CDATA[")
            st.state = "bogus_comment"
        return i + 7
    # incorrectly-opened-comment
    new_comment(st, "")
    st.state = "bogus_comment"
    return i


def s_comment_start(st, inp, i, c):
    if c == "-":
        st.state = "comment_start_dash"
        return i + 1
    if c == ">":
        # abrupt-closing-of-empty-comment
        st.state = "data"
        emit_comment(st)
        return i + 1
    st.state = "comment"
    return i


def s_comment_start_dash(st, inp, i, c):
    if c is None:
        emit_comment(st)
        emit_eof(st)
        return i
    if c == "-":
        st.state = "comment_end"
        return i + 1
    if c == ">":
        # abrupt-closing-of-empty-comment
        st.state = "data"
        emit_comment(st)
        return i + 1
    st.comment = st.comment + "-"
    st.state = "comment"
    return i


def s_comment(st, inp, i, c):
    if c is None:
        emit_comment(st)
        emit_eof(st)
        return i
    if c == "<":
        st.comment = st.comment + c
        st.state = "comment_less_than_sign"
    elif c == "-":
        st.state = "comment_end_dash"
    elif c == "\x00":
        st.comment = st.comment + REPLACEMENT
    else:
        st.comment = st.comment + c
    return i + 1


def s_comment_less_than_sign(st, inp, i, c):
    if c == "!":
        st.comment = st.comment + c
        st.state = "comment_less_than_sign_bang"
        return i + 1
    if c == "<":
        st.comment = st.comment + c
        return i + 1
    st.state = "comment"
    return i


def s_comment_less_than_sign_bang(st, inp, i, c):
    if c == "-":
        st.state = "comment_less_than_sign_bang_dash"
        return i + 1
    st.state = "comment"
    return i


def s_comment_less_than_sign_bang_dash(st, inp, i, c):
    if c == "-":
        st.state = "comment_less_than_sign_bang_dash_dash"
        return i + 1
    st.state = "comment_end_dash"
    return i


def s_comment_less_than_sign_bang_dash_dash(st, inp, i, c):
    # ">" or EOF: fine; anything else: nested-comment parse error.
    # Either way: reconsume in the comment end state.
    st.state = "comment_end"
    return i


def s_comment_end_dash(st, inp, i, c):
    if c is None:
        emit_comment(st)
        emit_eof(st)
        return i
    if c == "-":
        st.state = "comment_end"
        return i + 1
    st.comment = st.comment + "-"
    st.state = "comment"
    return i


def s_comment_end(st, inp, i, c):
    if c is None:
        emit_comment(st)
        emit_eof(st)
        return i
    if c == ">":
        st.state = "data"
        emit_comment(st)
        return i + 1
    if c == "!":
        st.state = "comment_end_bang"
        return i + 1
    if c == "-":
        st.comment = st.comment + "-"
        return i + 1
    st.comment = st.comment + "--"
    st.state = "comment"
    return i


def s_comment_end_bang(st, inp, i, c):
    if c is None:
        emit_comment(st)
        emit_eof(st)
        return i
    if c == "-":
        st.comment = st.comment + "--!"
        st.state = "comment_end_dash"
        return i + 1
    if c == ">":
        # incorrectly-closed-comment
        st.state = "data"
        emit_comment(st)
        return i + 1
    st.comment = st.comment + "--!"
    st.state = "comment"
    return i


# ---------------------------------------------------------------------------
# 13.2.5.53 - 13.2.5.68  DOCTYPE

def _doctype_eof(st, i):
    st.dt_force_quirks = True
    emit_doctype(st)
    emit_eof(st)
    return i


def s_doctype(st, inp, i, c):
    if c is None:
        # eof-in-doctype
        new_doctype(st)
        return _doctype_eof(st, i)
    if is_ws(c):
        st.state = "before_doctype_name"
        return i + 1
    # ">" : reconsume; anything else: missing-whitespace-before-doctype-name,
    # reconsume
    st.state = "before_doctype_name"
    return i


def s_before_doctype_name(st, inp, i, c):
    if c is None:
        new_doctype(st)
        return _doctype_eof(st, i)
    if is_ws(c):
        return i + 1
    new_doctype(st)
    if is_upper(c):
        st.dt_name = to_lower(c)
        st.state = "doctype_name"
    elif c == "\x00":
        st.dt_name = REPLACEMENT
        st.state = "doctype_name"
    elif c == ">":
        # missing-doctype-name
        st.dt_force_quirks = True
        st.state = "data"
        emit_doctype(st)
    else:
        st.dt_name = c
        st.state = "doctype_name"
    return i + 1


def s_doctype_name(st, inp, i, c):
    if c is None:
        return _doctype_eof(st, i)
    if is_ws(c):
        st.state = "after_doctype_name"
    elif c == ">":
        st.state = "data"
        emit_doctype(st)
    elif is_upper(c):
        st.dt_name = st.dt_name + to_lower(c)
    elif c == "\x00":
        st.dt_name = st.dt_name + REPLACEMENT
    else:
        st.dt_name = st.dt_name + c
    return i + 1


def s_after_doctype_name(st, inp, i, c):
    if c is None:
        return _doctype_eof(st, i)
    if is_ws(c):
        return i + 1
    if c == ">":
        st.state = "data"
        emit_doctype(st)
        return i + 1
    if ascii_ci_match(inp, i, "PUBLIC"):
        st.state = "after_doctype_public_keyword"
        return i + 6
    if ascii_ci_match(inp, i, "SYSTEM"):
        st.state = "after_doctype_system_keyword"
        return i + 6
    # invalid-character-sequence-after-doctype-name
    st.dt_force_quirks = True
    st.state = "bogus_doctype"
    return i


def _doctype_bogus(st, i):
    st.dt_force_quirks = True
    st.state = "bogus_doctype"
    return i


def _doctype_abrupt(st, i):
    st.dt_force_quirks = True
    st.state = "data"
    emit_doctype(st)
    return i + 1


def s_after_doctype_public_keyword(st, inp, i, c):
    if c is None:
        return _doctype_eof(st, i)
    if is_ws(c):
        st.state = "before_doctype_public_identifier"
        return i + 1
    if c == '"':
        # missing-whitespace-after-doctype-public-keyword
        st.dt_public = ""
        st.state = "doctype_public_identifier_double_quoted"
        return i + 1
    if c == "'":
        st.dt_public = ""
        st.state = "doctype_public_identifier_single_quoted"
        return i + 1
    if c == ">":
        # missing-doctype-public-identifier
        return _doctype_abrupt(st, i)
    # missing-quote-before-doctype-public-identifier
    return _doctype_bogus(st, i)


def s_before_doctype_public_identifier(st, inp, i, c):
    if c is None:
        return _doctype_eof(st, i)
    if is_ws(c):
        return i + 1
    if c == '"':
        st.dt_public = ""
        st.state = "doctype_public_identifier_double_quoted"
        return i + 1
    if c == "'":
        st.dt_public = ""
        st.state = "doctype_public_identifier_single_quoted"
        return i + 1
    if c == ">":
        return _doctype_abrupt(st, i)
    return _doctype_bogus(st, i)


def _doctype_public_identifier(st, i, c, quote):
    if c is None:
        return _doctype_eof(st, i)
    if c == quote:
        st.state = "after_doctype_public_identifier"
    elif c == "\x00":
        st.dt_public = st.dt_public + REPLACEMENT
    elif c == ">":
        # abrupt-doctype-public-identifier
        return _doctype_abrupt(st, i)
    else:
        st.dt_public = st.dt_public + c
    return i + 1


def s_doctype_public_identifier_double_quoted(st, inp, i, c):
    return _doctype_public_identifier(st, i, c, '"')


def s_doctype_public_identifier_single_quoted(st, inp, i, c):
    return _doctype_public_identifier(st, i, c, "'")


def s_after_doctype_public_identifier(st, inp, i, c):
    if c is None:
        return _doctype_eof(st, i)
    if is_ws(c):
        st.state = "between_doctype_public_and_system_identifiers"
        return i + 1
    if c == ">":
        st.state = "data"
        emit_doctype(st)
        return i + 1
    if c == '"':
        # missing-whitespace-between-doctype-public-and-system-identifiers
        st.dt_system = ""
        st.state = "doctype_system_identifier_double_quoted"
        return i + 1
    if c == "'":
        st.dt_system = ""
        st.state = "doctype_system_identifier_single_quoted"
        return i + 1
    # missing-quote-before-doctype-system-identifier
    return _doctype_bogus(st, i)


def s_between_doctype_public_and_system_identifiers(st, inp, i, c):
    if c is None:
        return _doctype_eof(st, i)
    if is_ws(c):
        return i + 1
    if c == ">":
        st.state = "data"
        emit_doctype(st)
        return i + 1
    if c == '"':
        st.dt_system = ""
        st.state = "doctype_system_identifier_double_quoted"
        return i + 1
    if c == "'":
        st.dt_system = ""
        st.state = "doctype_system_identifier_single_quoted"
        return i + 1
    return _doctype_bogus(st, i)


def s_after_doctype_system_keyword(st, inp, i, c):
    if c is None:
        return _doctype_eof(st, i)
    if is_ws(c):
        st.state = "before_doctype_system_identifier"
        return i + 1
    if c == '"':
        # missing-whitespace-after-doctype-system-keyword
        st.dt_system = ""
        st.state = "doctype_system_identifier_double_quoted"
        return i + 1
    if c == "'":
        st.dt_system = ""
        st.state = "doctype_system_identifier_single_quoted"
        return i + 1
    if c == ">":
        # missing-doctype-system-identifier
        return _doctype_abrupt(st, i)
    return _doctype_bogus(st, i)


def s_before_doctype_system_identifier(st, inp, i, c):
    if c is None:
        return _doctype_eof(st, i)
    if is_ws(c):
        return i + 1
    if c == '"':
        st.dt_system = ""
        st.state = "doctype_system_identifier_double_quoted"
        return i + 1
    if c == "'":
        st.dt_system = ""
        st.state = "doctype_system_identifier_single_quoted"
        return i + 1
    if c == ">":
        return _doctype_abrupt(st, i)
    return _doctype_bogus(st, i)


def _doctype_system_identifier(st, i, c, quote):
    if c is None:
        return _doctype_eof(st, i)
    if c == quote:
        st.state = "after_doctype_system_identifier"
    elif c == "\x00":
        st.dt_system = st.dt_system + REPLACEMENT
    elif c == ">":
        # abrupt-doctype-system-identifier
        return _doctype_abrupt(st, i)
    else:
        st.dt_system = st.dt_system + c
    return i + 1


def s_doctype_system_identifier_double_quoted(st, inp, i, c):
    return _doctype_system_identifier(st, i, c, '"')


def s_doctype_system_identifier_single_quoted(st, inp, i, c):
    return _doctype_system_identifier(st, i, c, "'")


def s_after_doctype_system_identifier(st, inp, i, c):
    if c is None:
        return _doctype_eof(st, i)
    if is_ws(c):
        return i + 1
    if c == ">":
        st.state = "data"
        emit_doctype(st)
        return i + 1
    # unexpected-character-after-doctype-system-identifier:
    # reconsume in bogus DOCTYPE; this does NOT set force-quirks
    st.state = "bogus_doctype"
    return i


def s_bogus_doctype(st, inp, i, c):
    if c is None:
        emit_doctype(st)
        emit_eof(st)
        return i
    if c == ">":
        st.state = "data"
        emit_doctype(st)
    # U+0000: unexpected-null-character, ignored; anything else: ignored
    return i + 1


# ---------------------------------------------------------------------------
# 13.2.5.69 - 13.2.5.71  CDATA sections

def s_cdata_section(st, inp, i, c):
    if c is None:
        # eof-in-cdata
        emit_eof(st)
        return i
    if c == "]":
        st.state = "cdata_section_bracket"
    else:
        # U+0000 is emitted unchanged here (it is handled in tree construction)
        emit_char(st, c)
    return i + 1


def s_cdata_section_bracket(st, inp, i, c):
    if c == "]":
        st.state = "cdata_section_end"
        return i + 1
    emit_char(st, "]")
    st.state = "cdata_section"
    return i


def s_cdata_section_end(st, inp, i, c):
    if c == "]":
        emit_char(st, "]")
        return i + 1
    if c == ">":
        st.state = "data"
        return i + 1
    emit_char(st, "]")
    emit_char(st, "]")
    st.state = "cdata_section"
    return i


# ---------------------------------------------------------------------------
# 13.2.5.72 - 13.2.5.80  character references, collapsed into ONE step

def s_character_reference(st, inp, i, c):
    rs = st.return_state
    in_attr = (rs == "attribute_value_double_quoted"
               or rs == "attribute_value_single_quoted"
               or rs == "attribute_value_unquoted")
    r = r10_charref.consume(inp, i, in_attr)
    text = r[0]
    new_i = r[1]
    if text is None:
        text = "&"
        new_i = i
    st.temp = text
    # "flush code points consumed as a character reference"
    if in_attr:
        append_attr_value(st, text)
    else:
        for ch in text:
            emit_char(st, ch)
    st.state = rs
    st.return_state = None
    return new_i


# ---------------------------------------------------------------------------

STATES = {
    "data": s_data,
    "rcdata": s_rcdata,
    "rawtext": s_rawtext,
    "script_data": s_script_data,
    "plaintext": s_plaintext,
    "tag_open": s_tag_open,
    "end_tag_open": s_end_tag_open,
    "tag_name": s_tag_name,
    "rcdata_less_than_sign": s_rcdata_less_than_sign,
    "rcdata_end_tag_open": s_rcdata_end_tag_open,
    "rcdata_end_tag_name": s_rcdata_end_tag_name,
    "rawtext_less_than_sign": s_rawtext_less_than_sign,
    "rawtext_end_tag_open": s_rawtext_end_tag_open,
    "rawtext_end_tag_name": s_rawtext_end_tag_name,
    "script_data_less_than_sign": s_script_data_less_than_sign,
    "script_data_end_tag_open": s_script_data_end_tag_open,
    "script_data_end_tag_name": s_script_data_end_tag_name,
    "script_data_escape_start": s_script_data_escape_start,
    "script_data_escape_start_dash": s_script_data_escape_start_dash,
    "script_data_escaped": s_script_data_escaped,
    "script_data_escaped_dash": s_script_data_escaped_dash,
    "script_data_escaped_dash_dash": s_script_data_escaped_dash_dash,
    "script_data_escaped_less_than_sign": s_script_data_escaped_less_than_sign,
    "script_data_escaped_end_tag_open": s_script_data_escaped_end_tag_open,
    "script_data_escaped_end_tag_name": s_script_data_escaped_end_tag_name,
    "script_data_double_escape_start": s_script_data_double_escape_start,
    "script_data_double_escaped": s_script_data_double_escaped,
    "script_data_double_escaped_dash": s_script_data_double_escaped_dash,
    "script_data_double_escaped_dash_dash": s_script_data_double_escaped_dash_dash,
    "script_data_double_escaped_less_than_sign": s_script_data_double_escaped_less_than_sign,
    "script_data_double_escape_end": s_script_data_double_escape_end,
    "before_attribute_name": s_before_attribute_name,
    "attribute_name": s_attribute_name,
    "after_attribute_name": s_after_attribute_name,
    "before_attribute_value": s_before_attribute_value,
    "attribute_value_double_quoted": s_attribute_value_double_quoted,
    "attribute_value_single_quoted": s_attribute_value_single_quoted,
    "attribute_value_unquoted": s_attribute_value_unquoted,
    "after_attribute_value_quoted": s_after_attribute_value_quoted,
    "self_closing_start_tag": s_self_closing_start_tag,
    "bogus_comment": s_bogus_comment,
    "markup_declaration_open": s_markup_declaration_open,
    "comment_start": s_comment_start,
    "comment_start_dash": s_comment_start_dash,
    "comment": s_comment,
    "comment_less_than_sign": s_comment_less_than_sign,
    "comment_less_than_sign_bang": s_comment_less_than_sign_bang,
    "comment_less_than_sign_bang_dash": s_comment_less_than_sign_bang_dash,
    "comment_less_than_sign_bang_dash_dash": s_comment_less_than_sign_bang_dash_dash,
    "comment_end_dash": s_comment_end_dash,
    "comment_end": s_comment_end,
    "comment_end_bang": s_comment_end_bang,
    "doctype": s_doctype,
    "before_doctype_name": s_before_doctype_name,
    "doctype_name": s_doctype_name,
    "after_doctype_name": s_after_doctype_name,
    "after_doctype_public_keyword": s_after_doctype_public_keyword,
    "before_doctype_public_identifier": s_before_doctype_public_identifier,
    "doctype_public_identifier_double_quoted": s_doctype_public_identifier_double_quoted,
    "doctype_public_identifier_single_quoted": s_doctype_public_identifier_single_quoted,
    "after_doctype_public_identifier": s_after_doctype_public_identifier,
    "between_doctype_public_and_system_identifiers": s_between_doctype_public_and_system_identifiers,
    "after_doctype_system_keyword": s_after_doctype_system_keyword,
    "before_doctype_system_identifier": s_before_doctype_system_identifier,
    "doctype_system_identifier_double_quoted": s_doctype_system_identifier_double_quoted,
    "doctype_system_identifier_single_quoted": s_doctype_system_identifier_single_quoted,
    "after_doctype_system_identifier": s_after_doctype_system_identifier,
    "bogus_doctype": s_bogus_doctype,
    "cdata_section": s_cdata_section,
    "cdata_section_bracket": s_cdata_section_bracket,
    "cdata_section_end": s_cdata_section_end,
    "character_reference": s_character_reference,
}


# ---------------------------------------------------------------------------
# Correspondence with html5lib's HTMLTokenizer state METHODS.
#
# IMPL2SPEC[m] is the R1 state that is "the same point of the standard" as
# html5lib being about to call self.m().  html5lib's tokenizer was written
# against the 2011-2014 text of the algorithm, whose states have the same
# names but slightly different granularity, hence these systematic differences
# (none of which changes the token stream):
#
#  (G1) "consume-first" instead of "reconsume": where the 2020 text says
#       "create X; reconsume in state S", html5lib consumes the character and
#       puts it into X itself (tag open/end tag open: first letter of the
#       tag name; before/after attribute name: first character of the
#       attribute name; before attribute value: first character of an unquoted
#       value; *EndTagOpen: first letter into temporaryBuffer; script data
#       escaped less-than sign: letter emitted + put into temporaryBuffer;
#       comment start / start dash / end dash / end / end bang: the offending
#       character is appended directly).  R1 needs one more (consuming) step
#       to be at the same input position.
#  (G2) runs: dataState, rcdataState, rawtextState, scriptDataState,
#       plaintextState, scriptDataEscapedState, commentState, attribute value
#       states, attributeNameState (letters), the "skip whitespace" branches
#       consume a whole run of characters in one call (stream.charsUntil).
#  (G3) EOF splitting: in every state other than the five content states,
#       html5lib reacts to EOF by (emitting the pending comment / DOCTYPE /
#       characters and) switching to dataState; the end of tokenization is
#       only signalled by the NEXT dataState() call returning False.  R1 emits
#       ("EOF",) and sets done in the same step.
#  (G4) lower-casing is done when leaving a state / at emit time
#       (str.translate(asciiUpper2Lower)), not per character: compare tag
#       names, attribute names, DOCTYPE names and the temporary buffer after
#       ASCII-lowercasing html5lib's side.
#  (G5) tokens under construction: the end tag token of the RCDATA/RAWTEXT/
#       script end tag name states exists only as temporaryBuffer in html5lib
#       (currentToken is still the last start tag there); the comment token of
#       a bogus comment is created by bogusCommentState itself; the DOCTYPE
#       token is created by markupDeclarationOpenState with name "" (R1:
#       created in doctype / before_doctype_name, name None = missing).
#
# A simple alignment rule that validate_r1.py checks on every hand-written
# input (2.2 million synchronisation points): after one html5lib state-method
# call that leaves the stream at input position p, run R1.step while
#     i < p,  or  (i == p and SPEC_CANON.get(st.state, st.state) != IMPL2SPEC[h.state.__name__])
# (the second clause fires at most twice in a row).  Then either i == p, and
# state, emitted tokens and tokens under construction agree (modulo G3-G5), or
# R1 is ahead (i > p) in one of the two situations marked [AHEAD] below, and
# agreement is reached again after the next html5lib call(s).

IMPL2SPEC = {
    "dataState": "data",                                    # G2
    # character reference state with return state "data"; the whole of
    # character reference / named / ambiguous ampersand / numeric* in one
    # call, exactly like R1's one "character_reference" step
    "entityDataState": "character_reference",
    "rcdataState": "rcdata",                                # G2
    "rawtextState": "rawtext",                              # G2
    "scriptDataState": "script_data",                       # G2
    "plaintextState": "plaintext",                          # G2
    "tagOpenState": "tag_open",                             # G1; on ">" emits "<>" at once (R1: "<", then ">" from data)
    "closeTagOpenState": "end_tag_open",                    # G1, G3
    "tagNameState": "tag_name",                             # G3, G4
    "rcdataLessThanSignState": "rcdata_less_than_sign",
    "rcdataEndTagOpenState": "rcdata_end_tag_open",         # G1, G5
    "rcdataEndTagNameState": "rcdata_end_tag_name",         # G5; deviation D4
    "rawtextLessThanSignState": "rawtext_less_than_sign",
    "rawtextEndTagOpenState": "rawtext_end_tag_open",       # G1, G5
    "rawtextEndTagNameState": "rawtext_end_tag_name",       # G5; D4
    "scriptDataLessThanSignState": "script_data_less_than_sign",
    "scriptDataEndTagOpenState": "script_data_end_tag_open",    # G1, G5
    "scriptDataEndTagNameState": "script_data_end_tag_name",    # G5; D4
    "scriptDataEscapeStartState": "script_data_escape_start",
    "scriptDataEscapeStartDashState": "script_data_escape_start_dash",
    "scriptDataEscapedState": "script_data_escaped",        # G2, G3
    "scriptDataEscapedDashState": "script_data_escaped_dash",               # G3
    "scriptDataEscapedDashDashState": "script_data_escaped_dash_dash",      # G3
    "scriptDataEscapedLessThanSignState": "script_data_escaped_less_than_sign",     # G1
    "scriptDataEscapedEndTagOpenState": "script_data_escaped_end_tag_open",         # G1, G5
    "scriptDataEscapedEndTagNameState": "script_data_escaped_end_tag_name",         # G5; D4
    # temporaryBuffer keeps the original case (compared with .lower()); R1's
    # temp is lower-cased per character as the standard says (G4)
    "scriptDataDoubleEscapeStartState": "script_data_double_escape_start",
    "scriptDataDoubleEscapedState": "script_data_double_escaped",           # G3
    "scriptDataDoubleEscapedDashState": "script_data_double_escaped_dash",  # G3
    "scriptDataDoubleEscapedDashDashState": "script_data_double_escaped_dash_dash",     # G3
    "scriptDataDoubleEscapedLessThanSignState": "script_data_double_escaped_less_than_sign",
    "scriptDataDoubleEscapeEndState": "script_data_double_escape_end",
    # "/", ">" and EOF are acted upon directly (self-closing / emit / data)
    # where the standard reconsumes in after_attribute_name first
    "beforeAttributeNameState": "before_attribute_name",    # G1, G2, G3
    # ">" emits and "/" goes to self-closing directly (standard: reconsume in
    # after_attribute_name); name lower-cased and duplicate *reported* on
    # leaving; duplicates *dropped* in emitCurrentToken (first wins)
    "attributeNameState": "attribute_name",                 # G2, G3, G4
    "afterAttributeNameState": "after_attribute_name",      # G1, G2, G3
    "beforeAttributeValueState": "before_attribute_value",  # G1, G2, G3
    # "&" is handled inside the same call (processEntityInAttribute) = R1's
    # switch to "character_reference" plus its single step
    "attributeValueDoubleQuotedState": "attribute_value_double_quoted",     # G2, G3
    "attributeValueSingleQuotedState": "attribute_value_single_quoted",     # G2, G3
    "attributeValueUnQuotedState": "attribute_value_unquoted",              # G2, G3
    "afterAttributeValueState": "after_attribute_value_quoted",             # G3
    "selfClosingStartTagState": "self_closing_start_tag",                   # G3
    # the whole comment up to and including ">" (or up to EOF) in ONE call,
    # token created and emitted there (G5); R1: one character per step
    "bogusCommentState": "bogus_comment",
    # on failure everything looked at is un-got and bogusCommentState re-reads
    # it.  [AHEAD]: for "[CDATA[" when CDATA sections are not allowed R1 has
    # consumed the 7 characters into comment "[CDATA[", html5lib has consumed
    # nothing; they agree again once the bogus comment is emitted.
    "markupDeclarationOpenState": "markup_declaration_open",                # G5
    "commentStartState": "comment_start",                   # G1, G3; deviation D1
    "commentStartDashState": "comment_start_dash",          # G1, G3; deviation D2
    # html5lib has no comment_less_than_sign* states (they only exist to
    # report the nested-comment parse error): see SPEC_CANON
    "commentState": "comment",                              # G2, G3
    "commentEndDashState": "comment_end_dash",              # G1, G3
    "commentEndState": "comment_end",                       # G1, G3
    "commentEndBangState": "comment_end_bang",              # G1, G3
    "doctypeState": "doctype",                              # G3, G5
    "beforeDoctypeNameState": "before_doctype_name",        # G3, G4, G5
    "doctypeNameState": "doctype_name",                     # G3, G4
    # on a failed PUBLIC/SYSTEM match the letters already matched stay
    # consumed (they would be ignored by bogus_doctype anyway): html5lib is
    # then ahead of R1 by up to 5 characters, both in bogus DOCTYPE
    "afterDoctypeNameState": "after_doctype_name",          # G3
    # [AHEAD]: everything except whitespace and EOF is un-got and left to
    # beforeDoctype{Public,System}IdentifierState, R1 acts on it directly
    "afterDoctypePublicKeywordState": "after_doctype_public_keyword",       # G3
    "beforeDoctypePublicIdentifierState": "before_doctype_public_identifier",   # G3
    "doctypePublicIdentifierDoubleQuotedState": "doctype_public_identifier_double_quoted",  # G3
    "doctypePublicIdentifierSingleQuotedState": "doctype_public_identifier_single_quoted",  # G3
    "afterDoctypePublicIdentifierState": "after_doctype_public_identifier",     # G3
    "betweenDoctypePublicAndSystemIdentifiersState": "between_doctype_public_and_system_identifiers",   # G3
    "afterDoctypeSystemKeywordState": "after_doctype_system_keyword",       # G3, [AHEAD] as above
    "beforeDoctypeSystemIdentifierState": "before_doctype_system_identifier",   # G3
    "doctypeSystemIdentifierDoubleQuotedState": "doctype_system_identifier_double_quoted",  # G3
    "doctypeSystemIdentifierSingleQuotedState": "doctype_system_identifier_single_quoted",  # G3
    "afterDoctypeSystemIdentifierState": "after_doctype_system_identifier",     # G3
    "bogusDoctypeState": "bogus_doctype",                   # G3
    # the whole section up to and including "]]>" (or up to EOF) in ONE call;
    # no cdata_section_bracket / cdata_section_end counterpart; deviation D3
    "cdataSectionState": "cdata_section",
}

# html5lib state methods whose name does not end in "State"
IMPL2SPEC_EXTRA = {
    # character reference state with return state "rcdata"
    "characterReferenceInRcdata": "character_reference",
}

# return state implied by html5lib's two character-reference state methods
IMPL_RETURN_STATE = {
    "entityDataState": "data",
    "characterReferenceInRcdata": "rcdata",
}

# R1 states that html5lib does not have, mapped to the R1 state whose html5lib
# counterpart html5lib is in at that point (same pending token, same output).
# R1's "character_reference" with an attribute value return state has no
# html5lib method either: html5lib never rests there (handled inline).
SPEC_CANON = {
    "comment_less_than_sign": "comment",
    "comment_less_than_sign_bang": "comment",
    "comment_less_than_sign_bang_dash": "comment_end_dash",
    "comment_less_than_sign_bang_dash_dash": "comment_end",
    "cdata_section_bracket": "cdata_section",
    "cdata_section_end": "cdata_section",
}


def step(st, inp, i):
    """Exactly one state step.  Current input character: inp[i], or EOF when
    i == len(inp).  Returns the index of the next input character."""
    if i < len(inp):
        c = inp[i]
    else:
        c = None
    return STATES[st.state](st, inp, i, c)


def merge_chars(tokens):
    """Merge adjacent ("Character", s) tokens."""
    res = []
    for t in tokens:
        if t[0] == "Character" and len(res) > 0 and res[len(res) - 1][0] == "Character":
            res[len(res) - 1] = ("Character", res[len(res) - 1][1] + t[1])
        else:
            res.append(t)
    return res


def tokenize(inp, initial="data", last_start_tag=None, cdata_allowed=False):
    st = new_state(initial, last_start_tag, cdata_allowed)
    i = 0
    while not st.done:
        i = step(st, inp, i)
    return merge_chars(st.out)
