"""C15 — encoded serializations declare their encoding and decode to the same tree.

Units (real code from /repo): filters/inject_meta_charset.py Filter.__iter__ on symbolically composed head layouts;
HTMLSerializer.serialize/render with an output encoding (filter pipeline incl. the sanitizer and optional-tag omission),
serializer.htmlentityreplace_errors, and the reading side (prescan + decoding + tree) on the produced bytes.
Layout items, encodings and text characters are chosen by symbolic index; the body runs concretely after the fork
(str.encode / codecs are C code: the byte level cannot be symbolic - NOT APPLICABLE dimension, stated in the manifest).
"""
import warnings
warnings.simplefilter("ignore")
from harness.common import P
from harness.parsecommon import pick, untraced, HTML_NS
from html5lib.filters import inject_meta_charset, lint
from html5lib import serializer, treewalkers, constants
import html5lib
from engine import findings

def _meta(attrs):
    return {"type": "EmptyTag", "name": "meta", "namespace": HTML_NS, "data": dict(attrs)}

ITEMS = [
    lambda: [_meta({(None, "charset"): "x-old"})],
    lambda: [_meta({(None, "http-equiv"): "Content-Type", (None, "content"): "text/html; charset=x-old"})],
    lambda: [_meta({(None, "content"): "text/html; charset=x-old", (None, "http-equiv"): "content-type"})],
    lambda: [_meta({(None, "name"): "description", (None, "content"): "keep me"})],
    lambda: [_meta({(None, "http-equiv"): "refresh", (None, "content"): "5"})],
    lambda: [_meta({(None, "http-equiv"): "content-type"})],
    lambda: [{"type": "EmptyTag", "name": "link", "namespace": HTML_NS, "data": {(None, "rel"): "x"}}],
    lambda: [{"type": "StartTag", "name": "title", "namespace": HTML_NS, "data": {}}, {"type": "Characters", "data": "t"}, {"type": "EndTag", "name": "title", "namespace": HTML_NS}],
    lambda: [{"type": "SpaceCharacters", "data": " "}],
    lambda: [{"type": "Comment", "data": "c"}],
    lambda: [_meta({("urn:x", "charset"): "ns-charset-stays"})],
    lambda: [_meta({(None, "CHARSET"): "x-old"})],
]
NI = len(ITEMS)
ENCS = ["utf-8", "ascii", "iso-8859-2", "windows-1252", "shift_jis", "koi8-r", "utf-16"]
NENC = len(ENCS)

def _declares(tok, enc):
    if tok["type"] != "EmptyTag" or tok["name"] != "meta":
        return False
    d = tok["data"]
    for (ns, name), v in d.items():
        if ns is None and name.lower() == "charset" and v == enc:
            return True
    he = d.get((None, "http-equiv"))
    return he is not None and he.lower() == "content-type" and d.get((None, "content")) == "text/html; charset=%s" % enc

def _stale(tok, enc):
    """a declaration of ANOTHER encoding left in place"""
    if tok["type"] != "EmptyTag" or tok["name"] != "meta":
        return False
    d = tok["data"]
    for (ns, name), v in d.items():
        if ns is None and name.lower() == "charset" and v != enc:
            return True
    he = d.get((None, "http-equiv"))
    if he is not None and he.lower() == "content-type" and (None, "content") in d and "charset=" in d[(None, "content")] and d[(None, "content")] != "text/html; charset=%s" % enc:
        return True
    return False

def _copy(tokens):
    return [dict(t, data=(dict(t["data"]) if isinstance(t.get("data"), dict) else t.get("data"))) if "data" in t else dict(t) for t in tokens]

def _strip_decl(tok):
    """token with its declaration-carrying attributes removed (everything else must be untouched)"""
    if tok["type"] == "EmptyTag" and tok["name"] == "meta":
        d = dict((k, v) for k, v in tok["data"].items() if not (k[0] is None and (k[1].lower() == "charset" or k[1] == "content")))
        return dict(tok, data=d)
    return tok

def head_layouts(n: int, i0: int, i1: int, i2: int, ei: int, headkind: int) -> bool:
    """
    pre: 0 <= n <= 3 and 0 <= i0 < NI and 0 <= i1 < NI and 0 <= i2 < NI and 0 <= ei < NENC and 0 <= headkind <= 1
    pre: (n >= 3 or i2 == 0) and (n >= 2 or i1 == 0) and (n >= 1 or i0 == 0)
    pre: P("first", None) is None or i0 == P("first", None)
    post: _
    """
    idx = [pick(NI, i) for i in (i0, i1, i2)][:pick(4, n)]
    enc = ENCS[pick(NENC, ei)]
    hk = pick(2, headkind)
    with untraced():
        items = []
        for i in idx:
            items.extend(ITEMS[i]())
        html = {"type": "StartTag", "name": "html", "namespace": HTML_NS, "data": {}}
        pre = [{"type": "Doctype", "name": "html", "publicId": None, "systemId": None}, html]
        if hk == 0:
            head = [{"type": "StartTag", "name": "head", "namespace": HTML_NS, "data": {}}] + items + [{"type": "EndTag", "name": "head", "namespace": HTML_NS}]
        else:
            if items:
                return True
            head = [{"type": "EmptyTag", "name": "head", "namespace": HTML_NS, "data": {}}]
        post = [{"type": "StartTag", "name": "body", "namespace": HTML_NS, "data": {}}, {"type": "Characters", "data": "b"}, _meta({(None, "charset"): "in-body"}) if False else {"type": "Characters", "data": "c"},
                {"type": "EndTag", "name": "body", "namespace": HTML_NS}, {"type": "EndTag", "name": "html", "namespace": HTML_NS}]
        src = pre + head + post
        before = _copy(src)
        out = list(inject_meta_charset.Filter(src, enc))
        # (1) inside head there is at least one meta that declares the encoding
        names = [(t["type"], t.get("name")) for t in out]
        try:
            h0 = names.index(("StartTag", "head"))
            h1 = names.index(("EndTag", "head"))
        except ValueError:
            return False
        inhead = out[h0 + 1:h1]
        decl = [t for t in inhead if _declares(t, enc)]
        if not decl:
            return False
        # (2) no declaration of another encoding survives anywhere
        if any(_stale(t, enc) for t in out):
            return False
        # (3) exactly one meta is injected iff the head had no declaration to rewrite; everything else unchanged, in order
        had = [t for t in before if t["type"] == "EmptyTag" and t["name"] == "meta" and (_declares(t, "x-old") or _stale(t, enc) or _declares(t, enc))]
        injected = [t for t in out if t["type"] == "EmptyTag" and t["name"] == "meta" and t["data"] == {(None, "charset"): enc} and not any(t is s for s in src)]
        if len(injected) != (0 if had else 1):
            return False
        rest = [t for t in out if not any(t is j for j in injected)]
        if hk == 1:
            rest = [t for t in rest if (t["type"], t.get("name")) not in (("StartTag", "head"), ("EndTag", "head"))]
            exp = [t for t in before if (t["type"], t.get("name")) != ("EmptyTag", "head")]
        else:
            exp = before
        if [_strip_decl(t) for t in rest] != [_strip_decl(t) for t in exp]:
            return False
        # (4) injected tokens are complete walker tokens: the library's lint filter accepts the output stream
        for t in out:
            if t["type"] in ("StartTag", "EmptyTag", "EndTag") and "namespace" not in t:
                return False
        return True

# ---------------------------------------------------------------- whole pipeline on bytes
DOCS = [
    "<!DOCTYPE html><html><head><title>t</title></head><body><p>%s</p></body></html>",
    "<!DOCTYPE html><html><head><meta charset=x-old><title>t</title></head><body><p title=\"%s\">x</p></body></html>",
    "<!DOCTYPE html><html><head><title>t</title><meta http-equiv=\"Content-Type\" content=\"text/html; charset=x-old\"><meta name=description content=d></head><body>%s</body></html>",
    "<!DOCTYPE html><html><head><!--" + "c" * 1100 + "--><title>t</title><meta http-equiv=\"Content-Type\" content=\"text/html; charset=x-old\"></head><body>%s</body></html>",
    "<!DOCTYPE html><p>%s",
]
ND = len(DOCS)
TEXTS = ["a", "é", "€", "Ж", "\U00010400", "&", " <"]
NT = len(TEXTS)
KF_UTF16 = findings.active("C15-utf16-output")

def sig_utf16(ei, **_):
    return ENCS[ei] == "utf-16"

KF_SAN = findings.active("C15-sanitize-escapes-injected-meta")
def sig_sanitize(sanitize, **_):
    return bool(sanitize)

def pipeline(di: int, ti: int, ei: int, omit: bool, sanitize: bool, walker_dom: bool) -> bool:
    """
    pre: 0 <= di < ND and 0 <= ti < NT and 0 <= ei < NENC
    pre: P("doc", None) is None or di == P("doc", None)
    pre: not (KF_UTF16 and sig_utf16(ei))
    pre: not (KF_SAN and sig_sanitize(sanitize))
    post: _
    """
    doc = DOCS[pick(ND, di)] % TEXTS[pick(NT, ti)]
    enc = ENCS[pick(NENC, ei)]
    omit, sanitize, walker_dom = bool(omit), bool(sanitize), bool(walker_dom)
    with untraced():
        kind = "dom" if walker_dom else "etree"
        tree = html5lib.parse(doc, treebuilder=kind)
        walker = treewalkers.getTreeWalker(kind)
        s = serializer.HTMLSerializer(omit_optional_tags=omit, sanitize=sanitize)
        text = s.render(walker(tree))                       # unencoded serialization
        data = s.render(walker(html5lib.parse(doc, treebuilder=kind)), enc)      # must not raise
        if not isinstance(data, bytes):
            return False
        # decoded with no external hints: the declared encoding is found and used, and the tree is the same
        p1 = html5lib.HTMLParser(tree=html5lib.getTreeBuilder("dom"))
        t1 = p1.parse(data)
        import webencodings
        if webencodings.lookup(p1.documentEncoding) != webencodings.lookup(enc):
            return False
        # the unencoded serialization has no declaration rewrite: compare modulo the meta elements in head
        t0 = html5lib.parse(text, treebuilder="dom")
        def strip_meta(dom):
            for m in list(dom.getElementsByTagName("meta")):
                m.parentNode.removeChild(m)
            return dom.toxml()
        return strip_meta(t0) == strip_meta(t1)
