"""C08 direct z3 obligations on the live quoting regexes (translated from serializer._quoteAttributeSpec / _quoteAttributeLegacy):
the language of attribute values the serializer leaves UNQUOTED is included in the language of values an HTML tokenizer reads
back unchanged from the unquoted-attribute-value state (non-empty, no ASCII whitespace, no '>', and - for the value to stay
one attribute - no quote, '=', '<', '`' that would be a parse error; only whitespace and '>' end the value)."""
import time, z3
from engine import re2z3
from html5lib import serializer

def unquoted_language():
    t0 = time.time()
    out = {"queries": 0}
    v = z3.String("v")
    R = z3.ReSort(z3.StringSort())
    anyc = z3.AllChar(R)
    for nm in ("_quoteAttributeSpec", "_quoteAttributeLegacy"):
        rx = getattr(serializer, nm)
        items, rep = re2z3.single_class(rx)
        if rep is not None:
            return {"status": "unknown", "detail": "%s is not a single character class" % nm, "queries": 1}
        tr = re2z3.Translator(rx.flags)
        C = tr.cls(items)
        s = z3.Solver()
        # left unquoted: non-empty and no character of the class anywhere (re.search finds nothing)
        s.add(z3.Length(v) > 0, z3.Not(z3.InRe(v, z3.Concat(z3.Star(anyc), C, z3.Star(anyc)))))
        s.push(); w = s.check(); s.pop()
        bad = z3.Union(*[z3.Re(z3.StringVal(c)) for c in "\t\n\x0c\r >\"'=<`"])
        s.add(z3.InRe(v, z3.Concat(z3.Star(anyc), bad, z3.Star(anyc))))
        r = s.check()
        out["queries"] += 2
        if str(r) == "sat":
            out.update(status="sat", model={"which": nm, "v": s.model()[v].as_string()}, detail="%s leaves a value unquoted that an unquoted attribute cannot hold" % nm)
            return out
        if str(r) != "unsat" or str(w) != "sat":
            out.update(status="unknown", detail=nm)
            return out
    # validate the translation on concrete strings (python re vs z3)
    samples = ["", "a", "a b", "a>", "'", "\"", "a=b", "x`", "\u00a0", "\u2028x", "/", "a/b", "\x00", "\x0b", "<", "ab", "\u3000"]
    for nm in ("_quoteAttributeSpec", "_quoteAttributeLegacy"):
        badv = re2z3.validate(getattr(serializer, nm), samples, mode="search")
        if badv:
            return {"status": "error", "detail": "re2z3 disagrees with re on %r" % badv, "queries": out["queries"]}
    out.update(status="unsat", witness_ok=True, witness_args={"which": "witness", "v": "ab"}, solver_s=round(time.time() - t0, 3))
    return out

def replay_unquoted(which, v, **_):
    if which == "witness":
        return True
    rx = getattr(serializer, which)
    if rx.search(v) is not None or v == "":
        return True        # the serializer quotes it
    return not any(c in v for c in "\t\n\x0c\r >\"'=<`")
