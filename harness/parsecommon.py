"""Shared machinery for parser-level harnesses: the REAL HTMLParser / tokenizer / tree builders from /repo, fed through
the front door by a chunked text source (concrete chunks run at full speed, symbolic chunks are executed symbolically).

Harness-side substitutions (never committed to /repo), each semantics-preserving and self-tested on import:
  * pure-Python ElementTree / bisect (sys.modules['_elementtree'] = None, ['_bisect'] = None)
  * MethodDispatcher.__getitem__ by linear scan (dict.get hashes the key -> a symbolic tag name would be realised)
  * Phase.processStartTag / processEndTag without the per-phase handler cache (the cache store hashes the name);
    C12 has its own obligations for the cache.
"""
import sys
sys.modules.setdefault("_elementtree", None)
sys.modules.setdefault("_bisect", None)
import ast, inspect
import xml.etree.ElementTree as ET
from xml.dom import minidom
import html5lib
from html5lib import html5parser, treebuilders, _utils, constants
from html5lib.constants import tokenTypes, namespaces, E

# ---------------------------------------------------------------- substitutions
_ORIG_MD_GETITEM = _utils.MethodDispatcher.__getitem__
def _md_getitem(self, key):
    for k in dict.keys(self):
        if k == key:
            return dict.__getitem__(self, k)
    return self.default

def _selftest_dispatch():
    p = html5parser.HTMLParser()
    n = 0
    for ph in p.phases.values():
        for attr in ("startTagHandler", "endTagHandler"):
            d = getattr(ph, attr, None)
            if d is None:
                continue
            d = d.dispatcher
            for k in list(dict.keys(d)) + ["no-such-element-name"]:
                assert _ORIG_MD_GETITEM(d, k) == _md_getitem(d, k), (ph, attr, k)
                n += 1
    return n
_selftest_dispatch()

_ORIG_PST = html5parser.Phase.processStartTag
_ORIG_PET = html5parser.Phase.processEndTag
def _pst(self, token):
    return self.startTagHandler[token["name"]](token)
def _pet(self, token):
    return self.endTagHandler[token["name"]](token)

def install_substitutions(cache_bypass=True):
    _utils.MethodDispatcher.__getitem__ = _md_getitem
    if cache_bypass:
        html5parser.Phase.processStartTag = _pst
        html5parser.Phase.processEndTag = _pet

# ---------------------------------------------------------------- source
class ChunkSrc:
    """text file-like object that hands out the given chunks one per read (a chunk may be a symbolic str)"""
    def __init__(self, chunks):
        self.chunks = [c for c in chunks]
        self.i = 0
    def read(self, n=-1):
        if n == 0:
            return ""
        while self.i < len(self.chunks):
            c = self.chunks[self.i]
            self.i += 1
            if len(c) > 0:
                return c
        return ""

# ---------------------------------------------------------------- names
def source_names():
    """every string constant that occurs in a dispatch table, name tuple or name set of html5parser.py,
    treebuilders/base.py and constants.py (AST scan of the live source) that looks like an element name,
    plus two fresh names"""
    names = set()
    import html5lib.treebuilders.base as tb
    def looks_like_name(v):
        return isinstance(v, str) and 1 <= len(v) <= 14 and v[0].isalpha() and all(ch.isalnum() or ch == "-" for ch in v) and (v == v.lower() or v in SVG_CAMEL)
    for mod in (html5parser, tb):
        tree = ast.parse(inspect.getsource(mod))
        for node in ast.walk(tree):
            # string constants inside tuple / list / set literals (name tuples, frozenset([...]) arguments) and == comparisons with token["name"]
            if isinstance(node, (ast.Tuple, ast.List, ast.Set)):
                for el in node.elts:
                    if isinstance(el, ast.Constant) and looks_like_name(el.value):
                        names.add(el.value)
            elif isinstance(node, ast.Compare):
                for c in [node.left] + list(node.comparators):
                    if isinstance(c, ast.Constant) and looks_like_name(c.value):
                        names.add(c.value)
    names -= set(["etree", "dom", "lxml", "tentative", "certain", "utf-8", "data", "name", "type", "html5lib", "hidden", "encoding", "charset", "content", "publicId", "systemId", "correct", "quirks", "limited", "no", "selfClosing"])
    keep = set()
    p = html5parser.HTMLParser()
    for ph in p.phases.values():
        for attr in ("startTagHandler", "endTagHandler"):
            d = getattr(ph, attr, None)
            if d is not None:
                keep.update(dict.keys(d.dispatcher))
    for s in (constants.specialElements, constants.scopingElements, constants.formattingElements):
        keep.update(n for _, n in s)
    for s in (constants.voidElements, constants.cdataElements, constants.rcdataElements, constants.headingElements, constants.tableInsertModeElements):
        keep.update(s)
    keep.update(["rb", "rtc", "template", "dialog", "menuitem", "main", "summary", "details", "picture", "source", "track", "slot"])
    keep = set(k for k in keep if isinstance(k, str)) | names
    return sorted(keep) + ["zz", "x-y", "a:b"]

SVG_CAMEL = ("foreignObject", "linearGradient", "clipPath")

# ---------------------------------------------------------------- abstract trees (R7)
def et_tree(node):
    """ElementTree (pure Python) -> nested tuples"""
    def one(e):
        if callable(e.tag) or not isinstance(e.tag, str):
            return ("#special", str(e.tag), e.text or "")
        kids = []
        if e.text:
            kids.append(("#text", e.text))
        for c in e:
            kids.append(one(c))
            if c.tail:
                kids.append(("#text", c.tail))
        return (e.tag, tuple(sorted(e.attrib.items())), tuple(kids))
    return one(node)

def dom_tree(node):
    def one(n):
        if n.nodeType == n.TEXT_NODE:
            return ("#text", n.nodeValue)
        if n.nodeType == n.COMMENT_NODE:
            return ("#comment", n.nodeValue)
        if n.nodeType == n.DOCUMENT_TYPE_NODE:
            return ("#doctype", n.name, n.publicId, n.systemId)
        kids = []
        for c in n.childNodes:
            k = one(c)
            if k[0] == "#text" and kids and kids[-1][0] == "#text":
                kids[-1] = ("#text", kids[-1][1] + k[1])
            else:
                kids.append(k)
        if n.nodeType in (n.DOCUMENT_NODE, n.DOCUMENT_FRAGMENT_NODE):
            return ("#root", (), tuple(kids))
        attrs = []
        for i in range(n.attributes.length):
            a = n.attributes.item(i)
            attrs.append(((a.namespaceURI, a.name), a.value))
        return ((n.namespaceURI, n.localName if n.namespaceURI else n.nodeName), tuple(sorted(attrs, key=repr)), tuple(kids))
    return one(node)

# ---------------------------------------------------------------- catalogue of tree-construction contexts
# (text prefix, fragment container or None).  Every prefix is fed as ONE concrete chunk.
CONTEXTS = [
    ("", None), ("<!DOCTYPE html>", None), ("<html>", None), ("<head>", None), ("<head><title>", None), ("<head><noscript>", None), ("<head></head>", None),
    ("<body>", None), ("<p>", None), ("<p>x", None), ("<b><i>", None), ("<a><b><p>", None), ("<ul><li>", None), ("<dl><dd>", None), ("<button>", None), ("<h1>", None),
    ("<table>", None), ("<table>x", None), ("<table><caption>", None), ("<table><colgroup>", None), ("<table><tbody>", None), ("<table><tr>", None), ("<table><tr><td>", None),
    ("<b><table><i>", None), ("<select>", None), ("<select><optgroup><option>", None), ("<table><tr><td><select>", None), ("<svg>", None), ("<svg><foreignObject>", None), ("<svg><title>", None),
    ("<math>", None), ("<math><mi>", None), ("<math><annotation-xml encoding=text/html>", None), ("<math><annotation-xml>", None), ("<frameset>", None), ("<frameset></frameset>", None),
    ("<body></body>", None), ("<body></body></html>", None), ("<frameset></frameset></html>", None), ("<textarea>", None), ("<script>", None), ("<style>", None), ("<plaintext>", None),
    ("<ruby><rt>", None), ("<pre>", None), ("<form>", None), ("<applet><b>", None), ("<nobr>", None), ("<div><rt><rt><rt>", None), ("<object><param>", None),
    ("<html a><body a=\"\" c=d>x", None), ("<html a=1><head a=1><body>", None),
    ("", "div"), ("", "table"), ("", "tr"), ("", "td"), ("", "select"), ("", "tbody"), ("", "colgroup"), ("", "caption"), ("", "head"), ("", "html"), ("", "body"), ("", "frameset"),
    ("", "title"), ("", "textarea"), ("", "script"), ("", "style"), ("", "noscript"), ("", "plaintext"), ("", "svg"), ("", "math"), ("<b>", "div"), ("<tr>", "table"), ("<td>", "tr"),
]

def render_token(kind, name):
    """a token as the text the real tokenizer turns into it"""
    if kind == 0:
        return "<%s>" % name
    if kind == 1:
        return "</%s>" % name
    if kind == 2:
        return "<%s a=b>" % name
    if kind == 3:
        return "<%s/>" % name
    return OTHER_TOKENS[kind - 4]

OTHER_TOKENS = ["", "x", " ", "\x00", "<!--c-->", "<!DOCTYPE html>", "<!DOCTYPE html PUBLIC \"-//W3C//DTD HTML 4.01 Transitional//EN\">", "\n", "&amp;", "<a href=x>", "<input type=hidden>", "<font size=1>", "<annotation-xml encoding=TEXT/HTML>", "<body a=b c=e f=g>", "<html a=b f=g>"]

def pick(n, i):
    for k in range(n):
        if i == k:
            return k
    return None

# ---------------------------------------------------------------- running concrete bodies at native speed
class NonTermination(Exception):
    pass

def _alarm(signum, frame):
    raise NonTermination("the concrete body did not finish within %d s (normal: milliseconds)" % GUARD_SECONDS)

GUARD_SECONDS = 20

class untraced:
    """after the symbolic choices have been forked into concrete values, run the (now concrete) body without CrossHair's
    opcode tracing; a no-op in plain Python (replays).  A wall-clock guard turns non-termination into an exception
    (i.e. a counterexample) instead of a hung worker."""
    def __enter__(self):
        self.cm = None
        import signal
        try:
            self._old = signal.signal(signal.SIGALRM, _alarm)
            signal.alarm(GUARD_SECONDS)
        except ValueError:
            self._old = None
        try:
            from crosshair.tracers import NoTracing, is_tracing
            if is_tracing():
                self.cm = NoTracing()
                self.cm.__enter__()
        except ImportError:
            pass
        return self
    def __exit__(self, *a):
        import signal
        if self._old is not None:
            signal.alarm(0)
            signal.signal(signal.SIGALRM, self._old)
        if self.cm is not None:
            self.cm.__exit__(*a)
        return False

# ---------------------------------------------------------------- unified abstract trees (R7) across builders
HTML_NS = namespaces["html"]

def _split(tag):
    if tag[:1] == "{":
        ns, _, local = tag[1:].partition("}")
        return (ns, local)
    return (None, tag)

def norm_et(e, top=True):
    """pure-Python ElementTree node -> ('elem', (ns, local), attrs, children) with ns None -> HTML namespace"""
    if not isinstance(e.tag, str):
        return ("comment", e.text or "")
    if e.tag == "<!DOCTYPE>":
        return ("doctype", e.text or "", e.get("publicId") or "", e.get("systemId") or "")
    kids = []
    def text(t):
        if t:
            if kids and kids[-1][0] == "text":
                kids[-1] = ("text", kids[-1][1] + t)
            else:
                kids.append(("text", t))
    text(e.text)
    for c in e:
        kids.append(norm_et(c, False))
        text(c.tail)
    if e.tag in ("DOCUMENT_ROOT", "DOCUMENT_FRAGMENT"):
        return ("root", tuple(kids))
    ns, local = _split(e.tag)
    attrs = tuple(sorted(((_split(k), v) for k, v in e.attrib.items()), key=repr))
    return ("elem", (ns or HTML_NS, local), attrs, tuple(kids))

def norm_dom(n):
    if n.nodeType == n.TEXT_NODE:
        return ("text", n.nodeValue)
    if n.nodeType == n.COMMENT_NODE:
        return ("comment", n.nodeValue)
    if n.nodeType == n.DOCUMENT_TYPE_NODE:
        return ("doctype", n.name or "", n.publicId or "", n.systemId or "")
    kids = []
    for c in n.childNodes:
        k = norm_dom(c)
        if k[0] == "text":
            if k[1] == "":
                continue
            if kids and kids[-1][0] == "text":
                kids[-1] = ("text", kids[-1][1] + k[1])
                continue
        kids.append(k)
    if n.nodeType in (n.DOCUMENT_NODE, n.DOCUMENT_FRAGMENT_NODE):
        return ("root", tuple(kids))
    attrs = []
    for i in range(n.attributes.length):
        a = n.attributes.item(i)
        attrs.append(((a.namespaceURI, a.localName if a.namespaceURI else a.name), a.value))
    # the element name is the qualified name the builder was given (what the DOM tree walker reports: nodeName), so that
    # an element called "a:b" is not split into prefix and local name by the reader
    return ("elem", (n.namespaceURI or HTML_NS, n.nodeName), tuple(sorted(attrs, key=repr)), tuple(kids))

_TB = {}
def builder(kind):
    if kind not in _TB:
        if kind == "etree-full":
            _TB[kind] = treebuilders.getTreeBuilder("etree", ET, fullTree=True)
        elif kind == "etree":
            _TB[kind] = treebuilders.getTreeBuilder("etree", ET)
        else:
            _TB[kind] = treebuilders.getTreeBuilder("dom")
    return _TB[kind]

def parse_norm(kind, ns, chunks, container, scripting=False, strict=False):
    """-> (normalised tree, parser)"""
    p = html5parser.HTMLParser(tree=builder(kind), namespaceHTMLElements=ns, strict=strict)
    src = ChunkSrc(chunks)
    if container is None:
        r = p.parse(src, scripting=scripting)
    else:
        r = p.parseFragment(src, container=container, scripting=scripting)
    if kind == "dom":
        return norm_dom(r), p
    return norm_et(r), p

def skeleton_ok(tree, allow_noframes_after_frameset=False):
    """document = optional doctype / comments + exactly one html element whose element children are head then body|frameset,
    no non-whitespace text directly under html"""
    if tree[0] != "root":
        return False
    htmls = [c for c in tree[1] if c[0] == "elem"]
    if len(htmls) != 1 or htmls[0][1] != (HTML_NS, "html"):
        return False
    for c in tree[1]:
        if c[0] not in ("elem", "doctype", "comment"):
            return False
    html = htmls[0]
    elems = [c for c in html[3] if c[0] == "elem"]
    if allow_noframes_after_frameset and len(elems) > 2 and elems[1][1] == (HTML_NS, "frameset"):
        # known finding C03-noframes-after-frameset: the standard's "after frameset" mode itself inserts noframes under html
        elems = elems[:2] + [c for c in elems[2:] if c[1] != (HTML_NS, "noframes")]
    if len(elems) != 2 or elems[0][1] != (HTML_NS, "head") or elems[1][1] not in ((HTML_NS, "body"), (HTML_NS, "frameset")):
        return False
    for c in html[3]:
        if c[0] == "text" and c[1].strip("\t\n\x0c\r ") != "":
            return False
    return True
