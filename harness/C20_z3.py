"""C20 direct z3 obligations: the live illegal-character regexes of _ihatexml vs an XML-parser oracle (R9 = expat),
for every BMP code point in first and non-first position; pubid class vs the XML PubidChar production."""
import time, z3
from xml.parsers import expat
from engine import re2z3
from html5lib import _ihatexml as X

def expat_accepts(name):
    try:
        b = ('<?xml version="1.0" encoding="utf-8"?><%s/>' % name).encode("utf-8")
    except UnicodeEncodeError:
        return False
    seen = []
    p = expat.ParserCreate()
    p.StartElementHandler = lambda n, a: seen.append(n)
    try:
        p.Parse(b, True)
    except expat.ExpatError:
        return False
    return seen == [name]

def _ranges(flags):
    rs, start = [], None
    for i, f in enumerate(flags):
        if f and start is None:
            start = i
        elif not f and start is not None:
            rs.append((start, i - 1)); start = None
    if start is not None:
        rs.append((start, len(flags) - 1))
    return rs

def _pred(rs, c):
    return z3.Or([z3.And(c >= lo, c <= hi) for lo, hi in rs]) if rs else z3.BoolVal(False)

PUBID = " \r\nabcdefghijklmnopqrstuvwxyzABCDEFGHIJKLMNOPQRSTUVWXYZ0123456789-'()+,./:=?;!*#@$_%"

def name_char_classes():
    t0 = time.time()
    first_ok = _ranges([expat_accepts(chr(c) + "x") for c in range(0x10000)])
    rest_ok = _ranges([expat_accepts("x" + chr(c)) for c in range(0x10000)])
    t_oracle = time.time() - t0
    fi, frep = re2z3.single_class(X.nonXmlNameFirstBMPRegexp)
    ri, rrep = re2z3.single_class(X.nonXmlNameBMPRegexp)
    pi, prep = re2z3.single_class(X.nonPubidCharRegexp)
    c = z3.Int("c")
    s = z3.Solver()
    s.add(c >= 0, c <= 0xFFFF)
    bad_first = re2z3.class_pred(fi, c)       # regex says: illegal as first character
    bad_rest = re2z3.class_pred(ri, c)
    bad_pub = re2z3.class_pred(pi, c)
    E1, E2 = _pred(first_ok, c), _pred(rest_ok, c)
    pub_ok = z3.Or([c == ord(ch) for ch in PUBID])
    queries = [
        ("kept-first-but-illegal", z3.And(z3.Not(bad_first), z3.Not(E1))),
        ("kept-rest-but-illegal", z3.And(z3.Not(bad_rest), z3.Not(E2))),
        ("legal-first-replaced", z3.And(bad_first, E1, c != ord(":"))),
        ("legal-rest-replaced", z3.And(bad_rest, E2, c != ord(":"))),
        ("colon-kept", z3.And(c == ord(":"), z3.Or(z3.Not(bad_first), z3.Not(bad_rest)))),
        ("pubid-kept-but-illegal", z3.And(z3.Not(bad_pub), z3.Not(pub_ok))),
        ("pubid-legal-replaced", z3.And(bad_pub, pub_ok)),
        ("escape-alphabet-illegal", z3.And(z3.Or([c == ord(ch) for ch in "U0123456789ABCDEF"]), z3.Or(bad_rest, bad_pub))),
        ("escape-head-illegal-first", z3.And(c == ord("U"), bad_first)),
    ]
    out = {"queries": len(queries) + 1, "oracle_s": round(t_oracle, 2)}
    s.push(); s.add(bad_first, z3.Not(bad_rest)); w = s.check()
    out["witness_ok"] = str(w) == "sat"
    out["witness_args"] = {"which": "witness: illegal first, legal later", "c": s.model()[c].as_long()} if str(w) == "sat" else None
    s.pop()
    for name, q in queries:
        s.push(); s.add(q); r = s.check()
        if str(r) == "sat":
            out.update(status="sat", model={"which": name, "c": s.model()[c].as_long()}, detail="%s: U+%04X" % (name, s.model()[c].as_long()))
            s.pop(); break
        if str(r) != "unsat":
            out.update(status="unknown", detail=name); s.pop(); break
        s.pop()
    else:
        out["status"] = "unsat"
    out["solver_s"] = round(time.time() - t0 - t_oracle, 3)
    return out

def replay_name_char(which, c, **_):
    ch = chr(c)
    f = X.InfosetFilter()
    if which.startswith("witness"):
        return True
    if "pubid" in which:
        return (X.nonPubidCharRegexp.match(ch) is None) == (ch in PUBID)
    if which in ("kept-first-but-illegal", "legal-first-replaced", "escape-head-illegal-first"):
        kept = f.toXmlName(ch + "x") == ch + "x"
        return kept == (expat_accepts(ch + "x") and ch != ":")
    if which == "colon-kept":
        return ":" not in f.toXmlName(":x") and ":" not in f.toXmlName("x:")
    kept = f.toXmlName("x" + ch) == "x" + ch
    return kept == (expat_accepts("x" + ch) and ch != ":")
