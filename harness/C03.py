"""C03 — parsing is total: any input yields a well-formed document skeleton.

Units (real code from /repo): HTMLParser.parse / parseFragment / mainLoop incl. the EOF loop, every phase reached from
the context catalogue, both built-in tree builders with namespacing on/off; generateImpliedEndTags on deep stacks.
"""
from harness.common import P
from harness import parsecommon as pc
from harness.parsecommon import pick, CONTEXTS, render_token, OTHER_TOKENS, untraced, parse_norm, skeleton_ok

pc.install_substitutions()
NAMES = pc.source_names()
NN = len(NAMES)
NK = 4 + len(OTHER_TOKENS)
CTX = P("ctx", 0)
SECOND = P("second", [])       # names allowed for the second token (thorough)
from engine import findings
KF_NOFRAMES = findings.active("C03-noframes-after-frameset")

def sig_noframes(kind, ni, has2, kind2, n2, scripting, **_):
    """the only deviation from the skeleton is one or more noframes elements after frameset under html"""
    prefix, container = CONTEXTS[CTX]
    k = kind
    text = render_token(k, NAMES[ni] if k <= 3 else None)
    if has2 and SECOND:
        text += render_token(kind2, SECOND[n2])
    if container is not None:
        return False
    tree, p = parse_norm("etree-full", True, [prefix, text], None, bool(scripting))
    return (not skeleton_ok(tree, False)) and skeleton_ok(tree, True)

CONFIGS = [("etree-full", True), ("etree-full", False), ("dom", True), ("dom", False)]

def total(kind: int, ni: int, has2: bool, kind2: int, n2: int, scripting: bool) -> bool:
    """
    pre: 0 <= kind < NK and 0 <= ni < NN and (kind <= 3 or ni == 0)
    pre: 0 <= kind2 <= 1 and 0 <= n2 < max(1, len(SECOND))
    pre: has2 == (len(SECOND) > 0) or (not has2 and kind2 == 0 and n2 == 0)
    post: _
    """
    prefix, container = CONTEXTS[CTX]
    k = pick(NK, kind)
    text = render_token(k, NAMES[pick(NN, ni)] if k <= 3 else None)
    if has2 and SECOND:
        text += render_token(pick(2, kind2), SECOND[pick(len(SECOND), n2)])
    scripting = bool(scripting)
    with untraced():
        for (b, ns) in CONFIGS:
            tree, p = parse_norm(b, ns, [prefix, text], container, scripting)      # any exception escapes -> counterexample
            if container is None and not skeleton_ok(tree, KF_NOFRAMES):
                return False
            if container is not None and tree[0] != "root":
                return False
    return True

DEEP = ["div", "rt", "optgroup", "option", "li", "dd", "p", "b", "a", "table", "select", "svg", "math", "span", "nobr", "button", "rp", "font", "td", "tr"]
CLOSERS = ["", "</div>", "</%s>", "<p>", "</body>", "<table>", "x"]

def deep(ni: int, d: int, ci: int, builder_dom: bool) -> bool:
    """
    pre: 0 <= ni < len(DEEP) and 0 <= d <= P("dmax", 2) and 0 <= ci < len(CLOSERS)
    pre: P("name", None) is None or ni == P("name", None)
    post: _
    """
    name = DEEP[pick(len(DEEP), ni)]
    depth = pick(3, d) * P("scale", 1500)
    closer = CLOSERS[pick(len(CLOSERS), ci)]
    if "%s" in closer:
        closer = closer % name
    text = "<div>" + ("<%s>" % name) * depth + closer
    kind = "dom" if builder_dom else "etree-full"
    with untraced():
        import html5lib
        p = html5lib.HTMLParser(tree=pc.builder(kind))
        p.parse(text)                 # must not raise (RecursionError included) whatever the depth
    return True
