"""C12 — parser objects are reusable: no state leaks between parses.

Units (real code from /repo): HTMLParser.parse / parseFragment / _parse / reset, every phase object's per-parse state,
the per-phase handler caches (REAL processStartTag / processEndTag, no cache bypass), TreeBuilder.reset;
HTMLSerializer.serialize reused after an aborted or abandoned call.
A first use A (completed, aborted by a strict-mode ParseError, or aborted by the input source raising), then a second
use B on the SAME object is compared with B on a brand-new object.  A, the abort kind and B are chosen by symbolic
index; the run is concrete after the fork.
"""
import warnings
warnings.simplefilter("ignore")
from harness.common import P
from harness import parsecommon as pc
from harness.parsecommon import pick, untraced, CONTEXTS, render_token, OTHER_TOKENS, ChunkSrc, norm_dom, norm_et, builder
from html5lib import html5parser, serializer, treewalkers
import html5lib

pc.install_substitutions(cache_bypass=False)       # linear-scan dispatcher only; the handler caches are live
NAMES = pc.source_names()

A_TOKENS = ["", "x", "\n", "<pre>", "<textarea>", "<listing>", "<table>", "<table>a", "<table> \n", "<table>a&;", "<p>", "</p>", "<b>", "<script>", "<title>", "<svg>", "<math>", "<select>", "<frameset>", "</html>",
            "<plaintext>", "<a>", "<td>", "<caption>", "<!DOCTYPE html>", "<!DOCTYPE x>", "<!--c-->", "<li>", "<noscript>", "&bogus;", "<b a=b>", "<form>", "<button>", "<nobr>", "\x00", "<html a=b>", "<body c=d>",
            "".join("<u%d>" % i for i in range(260)), "".join("</v%d>" % i for i in range(260))]
NA = len(A_TOKENS)
B_DOCS = [("<div>\n<b>x", None), ("<table>b</table>", None), ("<p>x", None), ("\n", None), ("<pre>\nx", None), ("<textarea>\nx", None), ("<svg><b>", None), ("<table><tr><td>a</table>", None), ("<b>1<p>2</b>3", None),
          ("<!DOCTYPE html><p>a<table>b", None), ("<frameset></frameset>", None), ("<title>a</title>x", None), ("<select><option>a", None), ("x", "div"), ("<td>a", "tr"), ("\n<b>", "pre"), ("a", "table"), ("<u1><u2><p>", None),
          ("<form><form>", None), ("<a><a>", None), ("<html a=c e=f>", None), ("<script>a</script>b", None), ("<li><li>", None), ("<nobr><nobr>", None), ("<p><table>x", "div"), ("<p>a<table>b", None), ("<p><table>", "td"), ("<!DOCTYPE html><p><table>", None)]
NB = len(B_DOCS)
ACTX = P("actx", 0)

class RaisingSrc(ChunkSrc):
    def __init__(self, chunks, fail_at):
        ChunkSrc.__init__(self, chunks)
        self.fail_at = fail_at
        self.reads = 0
    def read(self, n=-1):
        if n != 0:
            self.reads += 1
            if self.reads > self.fail_at:
                raise IOError("input source failed")
        return ChunkSrc.read(self, n)

def _run(p, text_chunks, container, kind, src=None):
    src = src or ChunkSrc(text_chunks)
    try:
        if container is None:
            r = p.parse(src)
        else:
            r = p.parseFragment(src, container=container)
    except html5parser.ParseError as e:
        return ("ParseError", str(e))
    return (norm_dom(r) if kind == "dom" else norm_et(r), [(pos, code, sorted(dv.items()) if isinstance(dv, dict) else dv) for pos, code, dv in p.errors])

def reuse(ai: int, mode: int, bi: int, dom: bool) -> bool:
    """
    pre: 0 <= ai < NA and 0 <= mode <= 3 and 0 <= bi < NB
    post: _
    """
    a_tok = A_TOKENS[pick(NA, ai)]
    mode = pick(4, mode)
    b_text, b_cont = B_DOCS[pick(NB, bi)]
    dom = bool(dom)
    with untraced():
        prefix, a_cont = CONTEXTS[ACTX]
        kind = "dom" if dom else "etree-full"
        strict = mode == 1
        shared = html5parser.HTMLParser(tree=builder(kind), strict=strict)
        # ---- first use A
        try:
            if mode in (2, 3):
                src = RaisingSrc([prefix, a_tok, "<p>tail"], 1 if mode == 2 else 2)
                if a_cont is None:
                    shared.parse(src)
                else:
                    shared.parseFragment(src, container=a_cont)
            else:
                _run(shared, [prefix, a_tok], a_cont, kind)
        except IOError:
            pass
        # ---- second use B on the same object vs a brand-new one
        got = _run(shared, [b_text], b_cont, kind)
        fresh = html5parser.HTMLParser(tree=builder(kind), strict=strict)
        want = _run(fresh, [b_text], b_cont, kind)
        return got == want

# ---------------------------------------------------------------- serializer reuse
S_DOCS = ["<script>a</b</script>x", "<style>a</style><p>&amp;<b>", "<title>&lt;</title><textarea>x</textarea>", "<p>a<!--c--d-->b", "<!DOCTYPE html SYSTEM \"a'b&quot;\"><p>x", "<xmp><b></xmp>y", "<p title='a\"b'>x"]
NSD = len(S_DOCS)

def serializer_reuse(ai: int, k: int, strict: bool, bi: int, omit: bool) -> bool:
    """
    pre: 0 <= ai < NSD and 0 <= bi < NSD and 0 <= k <= 12
    post: _
    """
    a = S_DOCS[pick(NSD, ai)]
    b = S_DOCS[pick(NSD, bi)]
    kk = 0
    while kk < k:
        kk += 1
    strict, omit = bool(strict), bool(omit)
    with untraced():
        walker = treewalkers.getTreeWalker("dom")
        ta = html5lib.parse(a, treebuilder="dom")
        tb = html5lib.parse(b, treebuilder="dom")
        s = serializer.HTMLSerializer(omit_optional_tags=omit)
        s.strict = strict
        # first use: consume only kk output chunks (abandoned generator), or run into a strict-mode SerializeError
        try:
            gen = s.serialize(walker(ta))
            for i, chunk in enumerate(gen):
                if i + 1 >= kk:
                    break
        except serializer.SerializeError:
            pass
        s.strict = False
        got = s.render(walker(tb))
        got_err = list(s.errors)
        f = serializer.HTMLSerializer(omit_optional_tags=omit)
        want = f.render(walker(tb))
        return got == want and got_err == list(f.errors)


# ---------------------------------------------------------------- re-entrant use of the module-level API
class ReentrantSrc(ChunkSrc):
    """a text source whose second read() parses ANOTHER document through the module-level html5lib.parse / parseFragment
    before it returns (the sequential form of 'another parse runs while this one is blocked in read()')"""
    def __init__(self, chunks, other, other_container, kind):
        ChunkSrc.__init__(self, chunks)
        self.other, self.other_container, self.kind, self.inner, self.n = other, other_container, kind, None, 0
    def read(self, n=-1):
        if n != 0:
            self.n += 1
            if self.n == 2:
                if self.other_container is None:
                    self.inner = html5lib.parse(self.other, treebuilder=self.kind)
                else:
                    self.inner = html5lib.parseFragment(self.other, container=self.other_container, treebuilder=self.kind)
        return ChunkSrc.read(self, n)

def reentrant(ai: int, bi: int, dom: bool) -> bool:
    """
    pre: 0 <= ai < NB and 0 <= bi < NB
    post: _
    """
    a_text, a_cont = B_DOCS[pick(NB, ai)]
    b_text, b_cont = B_DOCS[pick(NB, bi)]
    dom = bool(dom)
    with untraced():
        kind = "dom" if dom else "etree"
        norm = norm_dom if dom else norm_et
        def run(text_chunks_src, cont):
            if cont is None:
                return html5lib.parse(text_chunks_src, treebuilder=kind)
            return html5lib.parseFragment(text_chunks_src, container=cont, treebuilder=kind)
        want_a = norm(run(ChunkSrc([a_text[:1], a_text[1:]]), a_cont))
        want_b = norm(run(ChunkSrc([b_text]), b_cont))
        src = ReentrantSrc([a_text[:1], a_text[1:]], b_text, b_cont, kind)
        got_a = norm(run(src, a_cont))
        return got_a == want_a and src.inner is not None and norm(src.inner) == want_b
