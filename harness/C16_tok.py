"""C16 tokenizer error sites: every ParseError token produced from a C02 catalogue pre-state on a symbolic continuation
has a code that is a key of constants.E and a template that formats with the token's datavars."""
from harness import C02
from harness.C02 import run_prefix, CFG, PREFIX, K, T
from html5lib.constants import E

def errors_wellformed(s: str) -> bool:
    """
    pre: len(s) <= K
    pre: all(ch != chr(13) for ch in s)
    post: _
    """
    h, _ = run_prefix(CFG, PREFIX)
    st = h.stream
    st.chunk = s
    st.chunkSize = len(s)
    st.chunkOffset = 0
    n = 0
    alive = True
    while alive and n < 40:
        alive = h.state()
        n += 1
        while h.tokenQueue:
            t = h.tokenQueue.popleft()
            if t["type"] == T["ParseError"]:
                code = t["data"]
                if code not in E:
                    return False
                dv = t.get("datavars", {})
                for key, conv in NEEDS[code]:
                    if key not in dv:
                        return False
                    if conv in "dxXi" and not isinstance(dv[key], int):
                        return False       # formatting would raise (symbolic values are not formatted: that would realise them)
    return True

import re
NEEDS = dict((code, re.findall(r"%\((\w+)\)[-+ #0-9.]*([a-zA-Z])", tpl)) for code, tpl in E.items())
