"""C06 — byte input is decoded with the encoding the documented precedence selects.

Units (real code from /repo): HTMLBinaryInputStream.determineEncoding / detectBOM / detectEncodingMeta / changeEncoding,
EncodingBytes, EncodingParser, ContentAttrParser, lookupEncoding; HTMLParser on byte input (late meta -> reparse).
Bytes cannot be symbolic under CrossHair (element-wise realisation), so inputs are skeletons with holes / fragment
sequences / argument assignments chosen by SYMBOLIC INDEX from class alphabets; the run is concrete after the fork.
Reference R3 (refs/r3_prescan.py): the standard's prescan + meta content extraction.
"""
import warnings
warnings.simplefilter("ignore")
from io import BytesIO
from harness.common import P
from harness.parsecommon import pick, untraced
from html5lib import _inputstream
import html5lib, webencodings
from refs import r3_prescan as R3
from engine import findings

KF_PRESCAN = findings.active("C06-prescan-deviations")

def _impl_prescan(data):
    st = _inputstream.HTMLBinaryInputStream(BytesIO(b""), useChardet=False)
    st.rawStream = BytesIO(data)
    e = st.detectEncodingMeta()
    return e.name if e is not None else None

def _prescan_ok(data):
    got = _impl_prescan(data)
    want = R3.prescan(data)
    if got == want:
        return True
    if KF_PRESCAN and got == R3.prescan(data, slash_after_meta=False, overlapping_comment=False, failed_charset_blocks=False):
        return True           # explained by the three listed deviations
    return False

def sig_prescan(data_repr=None, **_):
    return True

# Well-formed markup units (each syntactically complete).  On malformed markup html5lib's prescan follows an older /
# looser reading than the 2020 standard in at least 9 ways (known finding C06-prescan-malformed-markup lists a minimal
# input for each); those inputs are outside this obligation's domain and are reported through the finding's witness.
WSH = [b"", b" ", b"\t", b"\n", b"\x0c", b"\r", b"  "]
UNITS = [
    b"<!-- c -->", b"<!--<meta charset=utf-8>-->", b"<!---->", b"<a href=\"x\">", b"<a b='<meta charset=utf-8>'>", b"<p title=\"a>b\">", b"</ab>", b"</ab c=\"d>e\">", b"<!DOCTYPE html>", b"<?xml version='1.0'?>",
    b"text = 'y' & z", b"<meta name=a content=b>", b"<meta name=a content=\"charset=utf-8\">", b"<meta charset=koi8-r>", b"<META CHARSET=\"KOI8-R\">", b"<meta charset = 'iso-8859-2' />", b"<meta charset=UTF-16>",
    b"<meta charset=\"utf-16be\">", b"<meta charset=bogus>", b"<meta charset=\"\">", b"<meta http-equiv=Content-Type content=\"text/html; charset=iso-8859-5\">",
    b"<meta content='text/html;charset=iso-8859-7' http-equiv='content-type'>", b"<meta http-equiv=refresh content=\"5; charset=iso-8859-8\">", b"<meta content=\"text/html; charset = 'windows-1251'\" http-equiv=CONTENT-TYPE>",
    b"<meta http-equiv=content-type content=\"text/html; charset=bogus\">", b"<meta http-equiv=content-type content=text/html;charset=shift_jis>", b"<html><head>", b"<title>t</title>", b"<metadata charset=utf-8>", b"<svg><meta charset=euc-kr></svg>",
]
NU = len(UNITS)

def prescan_units(n: int, u0: int, u1: int, u2: int, u3: int, w: int) -> bool:
    """
    pre: 0 <= n <= P("nunits", 3) and 0 <= u0 < NU and 0 <= u1 < NU and 0 <= u2 < NU and 0 <= u3 < NU and 0 <= w < len(WSH)
    pre: (n >= 4 or u3 == 0) and (n >= 3 or u2 == 0) and (n >= 2 or u1 == 0) and (n >= 1 or u0 == 0)
    pre: P("first", None) is None or u0 == P("first", None)
    post: _
    """
    idx = [pick(NU, u) for u in (u0, u1, u2, u3)][:pick(5, n)]
    ws = WSH[pick(len(WSH), w)]
    with untraced():
        data = ws.join(UNITS[i] for i in idx)
        got = _impl_prescan(data)
        return got == R3.prescan(data)

META_PARTS = [(b"<meta", b"charset", b"=", b"koi8-r", b">"), (b"<meta", b"http-equiv=content-type", b"content", b"=\"text/html;charset=koi8-r\"", b">"), (b"<meta", b"content='charset=koi8-r'", b"http-equiv", b"='Content-Type'", b"/>"),
              (b"<meta", b"charset", b"=", b"\"koi8-r\"", b"><meta charset=utf-8>")]
def prescan_whitespace(mi: int, w1: int, w2: int, w3: int, w4: int) -> bool:
    """
    pre: 0 <= mi < len(META_PARTS) and 1 <= w1 < len(WSH) and 0 <= w2 < len(WSH) and 0 <= w3 < len(WSH) and 0 <= w4 < len(WSH)
    post: _
    """
    mi = pick(len(META_PARTS), mi)
    parts = META_PARTS[mi]
    ws = [WSH[pick(len(WSH), w)] for w in (w1, w2, w3, w4)]
    with untraced():
        # whitespace of every kind between '<meta' / attribute name / '=' / value / '>' (the first gap is mandatory; a gap inside
        # 'name value' pairs without '=' would change the meaning, so the second skeleton keeps its own '=')
        if mi in (1, 2) and ws[1] == b"":
            return True        # two attributes need a separator
        data = parts[0] + ws[0] + parts[1] + ws[1] + parts[2] + ws[2] + parts[3] + ws[3] + parts[4]
        return _impl_prescan(data) == R3.prescan(data)

MALFORMED = [b"<meta/charset=koi8-r>", b"<!--><meta charset=koi8-r>", b"<meta charset=bogus content=\"text/html;charset=koi8-r\" http-equiv=content-type>", b"<meta charset=koi8-r<>", b"<meta charset=bogus charset=koi8-r>",
             b"</x y=\"><meta charset=koi8-r>\">", b"<meta charset=x-user-defined>", b"<<meta charset=iso-8859-2>", b"<meta<<meta charset=iso-8859-2>"]
def prescan_malformed(i: int) -> bool:
    """
    pre: 0 <= i < len(MALFORMED)
    post: _
    """
    d = MALFORMED[pick(len(MALFORMED), i)]
    with untraced():
        return _impl_prescan(d) == R3.prescan(d)

def prescan_window(pad: int, variant: int) -> bool:
    """
    pre: 1000 <= pad <= 1030 and 0 <= variant <= 1
    post: _
    """
    k = 1000
    while k < pad:
        k += 1
    v = pick(2, variant)
    with untraced():
        data = (b"<!--" + b"x" * (k - 7) + b"-->" if v == 0 else b" " * k) + b"<meta charset=koi8-r>"
        return _prescan_ok(data)

# ---------------------------------------------------------------- precedence
BOMS = [b"", b"\xef\xbb\xbf", b"\xff\xfe", b"\xfe\xff", b"\xff\xfe\x00\x00", b"\x00\x00\xfe\xff"]
BOMENC = [None, "utf-8", "utf-16le", "utf-16be", "utf-32le", "utf-32be"]
# per argument: absent, a valid label (distinct per argument so that the winner is identifiable), an invalid label, a UTF-16 label
ARGVALS = {
    "override_encoding": [None, "koi8-r", "bogus", "utf-16"],
    "transport_encoding": [None, "iso-8859-2", "", "utf-16be"],
    "same_origin_parent_encoding": [None, "iso-8859-5", "nope", "utf-16le"],
    "likely_encoding": [None, "iso-8859-7", "x", "utf-16"],
    "default_encoding": [None, "iso-8859-8", "zz", "utf-16be"],
}
METAS = [b"", b"<meta charset=windows-1251>", b"<meta charset=utf-16>", b"<meta charset=bogus>"]

def _canon(label):
    try:
        return webencodings.lookup(label).name
    except Exception:
        return None

def r_precedence(bom, args, meta):
    """the documented order -> (encoding name, certain?)"""
    if BOMENC[bom] is not None:
        return BOMENC[bom], True
    for k in ("override_encoding", "transport_encoding"):
        v = args[k]
        if v is not None and _canon(v) is not None:
            return _canon(v), True
    m = R3.prescan(METAS[meta])
    if m is not None:
        return m, False
    v = args["same_origin_parent_encoding"]
    if v is not None and _canon(v) is not None and not _canon(v).startswith("utf-16"):
        return _canon(v), False
    for k in ("likely_encoding", "default_encoding"):
        v = args[k]
        if v is not None and _canon(v) is not None:
            return _canon(v), False
    return "windows-1252", False

def precedence(bom: int, a0: int, a1: int, a2: int, a3: int, a4: int, meta: int, late: int) -> bool:
    """
    pre: 0 <= bom < 6 and 0 <= a0 < 4 and 0 <= a1 < 4 and 0 <= a2 < 4 and 0 <= a3 < 4 and 0 <= a4 < 4 and 0 <= meta < 4 and 0 <= late <= 4
    pre: P("bom", None) is None or bom == P("bom", None)
    pre: P("a0", None) is None or a0 == P("a0", None)
    pre: a3 <= P("amax", 3) and a4 <= P("amax", 3)
    post: _
    """
    b = pick(6, bom)
    sel = [pick(4, a) for a in (a0, a1, a2, a3, a4)]
    m = pick(4, meta)
    lt = pick(5, late)
    with untraced():
        names = list(ARGVALS)
        args = dict((names[i], ARGVALS[names[i]][sel[i]]) for i in range(5))
        want, certain = r_precedence(b, args, m)
        if want in ("utf-32le", "utf-32be"):
            return True                 # webencodings knows no UTF-32: html5lib cannot decode it whatever the order says
        body = BOMS[b] + METAS[m] + b"<p>caf\xe9</p>"
        trailer = b"</zz>"                  # a parse error at the very end: its recorded position must lie inside the input
        late_meta = (b"", b"<meta charset=shift_jis>", b"<meta http-equiv=Content-Type content='text/html; charset=shift_jis'>", b"<meta charset=utf-16>", b"<meta charset=shift_jis>")[lt]
        if lt:
            # variant 4: the declaration lies beyond the stream's first 10240-character chunk
            body += b"<!--" + b"x" * (1100 if lt < 4 else 10300) + b"-->" + late_meta
        body += trailer
        kw = dict((k, v) for k, v in args.items() if v is not None)
        # (a) the stream's own decision
        st = _inputstream.HTMLBinaryInputStream(BytesIO(body), useChardet=False, **kw)
        if st.charEncoding[0].name != want or (st.charEncoding[1] == "certain") != certain:
            return False
        # (b) the parser: documentEncoding, late meta only when tentative, tree == tree of the decoded bytes
        p = html5lib.HTMLParser(tree=html5lib.getTreeBuilder("dom"))
        t = p.parse(BytesIO(body), useChardet=False, **kw)
        # tree construction meets the declarations in document order while the encoding is tentative ("change the encoding"):
        # an invalid label is ignored, UTF-16 means UTF-8, the same encoding makes it certain, another one restarts the parse
        final = want
        # (a tentative UTF-16 guess from likely_/default_encoding decodes this ASCII document to noise: no declaration is
        # visible to tree construction, the guess stands - oracle corrected after a false alarm in the thorough tier)
        if not certain and not want.startswith("utf-16"):
            labels = []
            if m:
                labels.append([None, "windows-1251", "utf-16", "bogus"][m])
            if lt:
                labels.append(["", "shift_jis", "shift_jis", "utf-16", "shift_jis"][lt])
            for lab in labels:
                enc = _canon(lab)
                if enc is None:
                    continue
                if enc in ("utf-16le", "utf-16be"):
                    enc = "utf-8"
                final = enc
                break
        if webencodings.lookup(p.documentEncoding).name != final:
            return False
        # positions of the recorded errors (also after a restart caused by a late declaration) lie inside the input
        if not final.startswith("utf-16"):
            ntext = len(body[len(BOMS[b]):].decode(webencodings.lookup(final).codec_info.name, "replace"))
            if not p.errors:
                return False
            for (line, col), code, dv in p.errors:
                if line != 1 or not (0 <= col <= ntext):
                    return False
        if final.startswith("utf-16"):
            return True
        payload = body[len(BOMS[b]):]
        text = payload.decode(webencodings.lookup(final).codec_info.name, "replace")
        t2 = html5lib.parse(text, treebuilder="dom")
        return t.toxml() == t2.toxml()
