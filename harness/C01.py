"""C01 — tree construction follows the WHATWG algorithm: KERNEL obligations only.

Whole-algorithm equivalence is out of reach (no independent HTML parser is available offline; the state is a pointer-rich
tree).  Decided here: the decisions the algorithm is assembled from, each against a few-line reference R4 written from the
standard: scope tests, implied end tags, reset-the-insertion-mode for fragments, integration points, the quirks-mode
decision (facts I am certain of), the Noah's-ark clause / reconstruction of active formatting elements.
Stacks, names, attributes and doctype strings are chosen by SYMBOLIC INDEX; the real functions run concretely after the fork.
"""
import warnings
warnings.simplefilter("ignore")
from harness.common import P
from harness.parsecommon import pick, untraced, builder, norm_dom, HTML_NS
from html5lib import html5parser, _tokenizer
from html5lib.constants import namespaces
import html5lib
from engine import findings

SVG, MML = namespaces["svg"], namespaces["mathml"]
# one representative per class the five scope definitions distinguish (+ same local names under another namespace)
STACK_ALPHA = [("p", HTML_NS), ("table", HTML_NS), ("td", HTML_NS), ("button", HTML_NS), ("ul", HTML_NS), ("optgroup", HTML_NS), ("option", HTML_NS), ("li", HTML_NS), ("div", HTML_NS),
               ("mi", MML), ("desc", SVG), ("title", SVG), ("p", SVG), ("table", SVG), ("select", HTML_NS), ("template", HTML_NS), ("title", HTML_NS),
               ("caption", HTML_NS), ("ol", HTML_NS), ("annotation-xml", MML), ("foreignObject", SVG), ("svg", SVG), ("math", MML), ("applet", HTML_NS), ("marquee", HTML_NS), ("object", HTML_NS), ("th", HTML_NS)]
NSA_Q = 17
NSA = len(STACK_ALPHA)
BASE_SCOPE = [(HTML_NS, n) for n in ("applet", "caption", "html", "table", "td", "th", "marquee", "object", "template")] + [(MML, n) for n in ("mi", "mo", "mn", "ms", "mtext", "annotation-xml")] + [(SVG, n) for n in ("foreignObject", "desc", "title")]
KF_TEMPLATE = findings.active("C01-older-revision-differences")

def r4_in_scope(stack, target, variant):
    """stack: list of (name, ns) bottom first; target: HTML element name"""
    if variant == "select":
        def boundary(t):
            return t not in ((HTML_NS, "optgroup"), (HTML_NS, "option"))
    elif variant == "table":
        def boundary(t):
            return t in ((HTML_NS, "html"), (HTML_NS, "table"), (HTML_NS, "template"))
    else:
        extra = {None: [], "button": [(HTML_NS, "button")], "list": [(HTML_NS, "ol"), (HTML_NS, "ul")]}[variant]
        def boundary(t):
            return t in BASE_SCOPE or t in extra
    for (name, ns) in reversed(stack):
        if (ns, name) == (HTML_NS, target):
            return True
        if boundary((ns, name)):
            return False
    return False

VARIANTS = [None, "button", "list", "table", "select"]
TARGETS = ["p", "table", "td", "li", "button", "select", "option", "title", "div", "caption"]

def scope(d: int, s0: int, s1: int, s2: int, s3: int, ti: int, vi: int) -> bool:
    """
    pre: 0 <= d <= P("depth", 4) and 0 <= s0 < P("nsa", NSA) and 0 <= s1 < P("nsa", NSA) and 0 <= s2 < P("nsa", NSA) and 0 <= s3 < P("nsa", NSA) and 0 <= ti < len(TARGETS) and 0 <= vi < 5
    pre: (d >= 4 or s3 == 0) and (d >= 3 or s2 == 0) and (d >= 2 or s1 == 0) and (d >= 1 or s0 == 0)
    pre: P("variant", None) is None or vi == P("variant", None)
    pre: P("target", None) is None or ti == P("target", None)
    post: _
    """
    idx = [pick(NSA, s) for s in (s0, s1, s2, s3)][:pick(5, d)]
    target = TARGETS[pick(len(TARGETS), ti)]
    variant = VARIANTS[pick(5, vi)]
    with untraced():
        stack = [("html", HTML_NS)] + [STACK_ALPHA[i] for i in idx]
        if KF_TEMPLATE and ("template", HTML_NS) in stack:
            return True                      # 'template' postdates the revision html5lib implements (listed known finding)
        tb = builder("dom")(True)
        tb.openElements = [tb.elementClass(n, ns) for (n, ns) in stack]
        return bool(tb.elementInScope(target, variant)) == r4_in_scope(stack, target, variant)

IMPLIED_2020 = ("dd", "dt", "li", "optgroup", "option", "p", "rb", "rp", "rt", "rtc")
IMPL_ALPHA = [("dd", HTML_NS), ("dt", HTML_NS), ("li", HTML_NS), ("optgroup", HTML_NS), ("option", HTML_NS), ("p", HTML_NS), ("rp", HTML_NS), ("rt", HTML_NS), ("div", HTML_NS), ("ruby", HTML_NS), ("p", SVG), ("rb", HTML_NS), ("rtc", HTML_NS), ("span", HTML_NS)]

def implied_end_tags(d: int, s0: int, s1: int, s2: int, s3: int, ex: int) -> bool:
    """
    pre: 0 <= d <= P("idepth", 4) and 0 <= s0 < len(IMPL_ALPHA) and 0 <= s1 < len(IMPL_ALPHA) and 0 <= s2 < len(IMPL_ALPHA) and 0 <= s3 < len(IMPL_ALPHA) and 0 <= ex <= len(IMPL_ALPHA)
    pre: (d >= 4 or s3 == 0) and (d >= 3 or s2 == 0) and (d >= 2 or s1 == 0) and (d >= 1 or s0 == 0)
    post: _
    """
    idx = [pick(len(IMPL_ALPHA), s) for s in (s0, s1, s2, s3)][:pick(5, d)]
    exi = pick(len(IMPL_ALPHA) + 1, ex)
    with untraced():
        stack = [("html", HTML_NS), ("body", HTML_NS)] + [IMPL_ALPHA[i] for i in idx]
        exclude = None if exi == len(IMPL_ALPHA) else IMPL_ALPHA[exi][0]
        if KF_TEMPLATE and any((n in ("rb", "rtc") and ns == HTML_NS) or (n, ns) == ("p", SVG) for n, ns in stack):
            return True                      # rb / rtc postdate the revision html5lib implements; implied end tags are matched by bare name (listed known finding)
        tb = builder("dom")(True)
        tb.openElements = [tb.elementClass(n, ns) for (n, ns) in stack]
        tb.generateImpliedEndTags(exclude)
        want = list(stack)
        while want[-1][1] == HTML_NS and want[-1][0] in IMPLIED_2020 and want[-1][0] != exclude:
            want.pop()
        return [(e.name, e.namespace) for e in tb.openElements] == want

# ---------------------------------------------------------------- reset the insertion mode appropriately (fragment case)
CONTEXTS = ["select", "td", "th", "tr", "tbody", "thead", "tfoot", "caption", "colgroup", "table", "head", "body", "frameset", "html", "div", "p", "title", "textarea", "script", "svg", "math", "template", "li", "option", "zz"]
R4_MODE = {"select": "InSelectPhase", "tr": "InRowPhase", "tbody": "InTableBodyPhase", "thead": "InTableBodyPhase", "tfoot": "InTableBodyPhase", "caption": "InCaptionPhase", "colgroup": "InColumnGroupPhase",
           "table": "InTablePhase", "head": "InHeadPhase", "body": "InBodyPhase", "frameset": "InFramesetPhase", "html": "BeforeHeadPhase"}
KF_RESET = findings.active("C01-older-revision-differences")

def reset_mode(ci: int) -> bool:
    """
    pre: 0 <= ci < len(CONTEXTS)
    post: _
    """
    name = CONTEXTS[pick(len(CONTEXTS), ci)]
    with untraced():
        p = html5parser.HTMLParser(tree=builder("dom"))
        p.innerHTMLMode = True
        p.container = name
        p.scripting = False
        p.tokenizer = _tokenizer.HTMLTokenizer("", parser=p)
        p.reset()
        got = p.phase.__class__.__name__
        # standard (fragment case: node = context element, last = true): td/th only when last is false; head with last -> in body
        want = R4_MODE.get(name, "InBodyPhase")
        if name == "head":
            want = "InHeadPhase"        # step: "if node is a head element and last is false -> in head"; last -> in body
            want = "InBodyPhase"
        if KF_RESET and name in ("td", "th", "head", "template"):
            return True
        return got == want

# ---------------------------------------------------------------- integration points
IP_ELEMS = [("annotation-xml", MML), ("annotation-xml", SVG), ("foreignObject", SVG), ("desc", SVG), ("title", SVG), ("foreignobject", SVG), ("mi", MML), ("mo", MML), ("mn", MML), ("ms", MML), ("mtext", MML), ("mi", SVG), ("title", HTML_NS), ("svg", SVG), ("math", MML), ("annotation-xml", HTML_NS)]
ENCODINGS = [None, "text/html", "TEXT/HTML", "application/xhtml+xml", "Application/XHTML+XML", "text/plain", "", "text/html ", "xtext/html"]

def integration_points(ei: int, enc: int) -> bool:
    """
    pre: 0 <= ei < len(IP_ELEMS) and 0 <= enc < len(ENCODINGS)
    post: _
    """
    name, ns = IP_ELEMS[pick(len(IP_ELEMS), ei)]
    e = ENCODINGS[pick(len(ENCODINGS), enc)]
    with untraced():
        p = html5parser.HTMLParser(tree=builder("dom"))
        el = p.tree.elementClass(name, ns)
        if e is not None:
            el.attributes = {"encoding": e}
        def lower(s):
            return "".join(chr(ord(c) + 32) if "A" <= c <= "Z" else c for c in s)
        want_html = (ns == SVG and name in ("foreignObject", "desc", "title")) or (ns == MML and name == "annotation-xml" and e is not None and lower(e) in ("text/html", "application/xhtml+xml"))
        want_mml = ns == MML and name in ("mi", "mo", "mn", "ms", "mtext")
        return bool(p.isHTMLIntegrationPoint(el)) == want_html and bool(p.isMathMLTextIntegrationPoint(el)) == want_mml

# ---------------------------------------------------------------- quirks mode: facts of the standard I am certain of
DOCTYPES = [
    ("<!DOCTYPE html>", "no quirks"), ("<!doctype HTML>", "no quirks"), ("", "quirks"), ("<!DOCTYPE foo>", "quirks"), ("<!DOCTYPE>", "quirks"), ("<!DOCTYPE html SYSTEM \"about:legacy-compat\">", "no quirks"),
    ("<!DOCTYPE html PUBLIC \"-//W3C//DTD HTML 4.01//EN\" \"http://www.w3.org/TR/html4/strict.dtd\">", "no quirks"), ("<!DOCTYPE html PUBLIC \"-//W3C//DTD HTML 4.01//EN\">", "no quirks"),
    ("<!DOCTYPE html PUBLIC \"-//W3C//DTD HTML 4.01 Transitional//EN\" \"http://www.w3.org/TR/html4/loose.dtd\">", "limited quirks"), ("<!DOCTYPE html PUBLIC \"-//W3C//DTD HTML 4.01 Transitional//EN\">", "quirks"),
    ("<!DOCTYPE html PUBLIC \"-//W3C//DTD HTML 4.01 Frameset//EN\" \"http://www.w3.org/TR/html4/frameset.dtd\">", "limited quirks"), ("<!DOCTYPE html PUBLIC \"-//W3C//DTD HTML 4.01 Frameset//EN\">", "quirks"),
    ("<!DOCTYPE html PUBLIC \"-//W3C//DTD XHTML 1.0 Transitional//EN\" \"http://www.w3.org/TR/xhtml1/DTD/xhtml1-transitional.dtd\">", "limited quirks"), ("<!DOCTYPE html PUBLIC \"-//W3C//DTD XHTML 1.0 Frameset//EN\" \"x\">", "limited quirks"),
    ("<!DOCTYPE html PUBLIC \"-//W3C//DTD XHTML 1.0 Strict//EN\" \"http://www.w3.org/TR/xhtml1/DTD/xhtml1-strict.dtd\">", "no quirks"), ("<!DOCTYPE html PUBLIC \"-//W3C//DTD HTML 3.2 Final//EN\">", "quirks"),
    ("<!DOCTYPE html PUBLIC \"-//W3C//DTD HTML 3.2//EN\">", "quirks"), ("<!DOCTYPE html PUBLIC \"-//IETF//DTD HTML//EN\">", "quirks"), ("<!DOCTYPE html PUBLIC \"-//W3O//DTD W3 HTML Strict 3.0//EN//\">", "quirks"),
    ("<!DOCTYPE html PUBLIC \"-/W3C/DTD HTML 4.0 Transitional/EN\">", "quirks"), ("<!DOCTYPE html PUBLIC \"HTML\">", "quirks"), ("<!DOCTYPE html SYSTEM \"http://www.ibm.com/data/dtd/v11/ibmxhtml1-transitional.dtd\">", "quirks"),
    ("<!DOCTYPE html PUBLIC \"-//W3C//DTD HTML 4.0 Transitional//EN\">", "quirks"), ("<!DOCTYPE html PUBLIC \"-//w3c//dtd html 4.01 transitional//en\">", "quirks"), ("<!DOCTYPE html PUBLIC \"-//W3C//DTD HTML 4.01 TRANSITIONAL//EN\" \"x\">", "limited quirks"),
    ("<!DOCTYPE html PUBLIC \"-//Netscape Comm. Corp.//DTD HTML//EN\">", "quirks"), ("<!DOCTYPE html PUBLIC \"-//W3C//DTD W3 HTML//EN\">", "quirks"), ("<!DOCTYPE html PUBLIC \"x\" \"y\">", "no quirks"), ("<!DOCTYPE html bogus>", "quirks"),
]

def quirks(di: int, case: int) -> bool:
    """
    pre: 0 <= di < len(DOCTYPES) and 0 <= case <= 2
    post: _
    """
    src, want = DOCTYPES[pick(len(DOCTYPES), di)]
    c = pick(3, case)
    with untraced():
        if c == 1:
            src = src.replace("PUBLIC", "public").replace("SYSTEM", "system")
        # quirks mode makes a table NOT close an open p: observable through the tree, and reported as compatMode
        p = html5parser.HTMLParser(tree=builder("dom"))
        t = p.parse(src + "<p><table>")
        if p.compatMode != want:
            return False
        body = [n for n in t.getElementsByTagName("body")][0]
        nested = len(body.getElementsByTagName("p")[0].getElementsByTagName("table")) == 1
        return nested == (want == "quirks")

# ---------------------------------------------------------------- active formatting elements: Noah's ark + reconstruction
FATTRS = ["", " id=1", " id=2", " class=1", " id=1 class=1", " class=1 id=1", " ID=1"]
FNAMES = ["b", "i", "font"]

def noahs_ark(k: int, n0: int, a0: int, n1: int, a1: int, n2: int, a2: int, n3: int, a3: int, n4: int, a4: int) -> bool:
    """
    pre: 1 <= k <= P("k", 5)
    pre: 0 <= n0 < 3 and 0 <= n1 < 3 and 0 <= n2 < 3 and 0 <= n3 < 3 and 0 <= n4 < 3
    pre: 0 <= a0 < len(FATTRS) and 0 <= a1 < len(FATTRS) and 0 <= a2 < len(FATTRS) and 0 <= a3 < len(FATTRS) and 0 <= a4 < len(FATTRS)
    pre: (k >= 5 or (n4 == 0 and a4 == 0)) and (k >= 4 or (n3 == 0 and a3 == 0)) and (k >= 3 or (n2 == 0 and a2 == 0)) and (k >= 2 or (n1 == 0 and a1 == 0))
    pre: P("n0", None) is None or n0 == P("n0", None)
    pre: n0 <= 1 and n1 <= 1 and n2 <= 1 and n3 <= 1 and n4 <= 1 and a0 <= 4 and a1 <= 4 and a2 <= 4 and a3 <= 4 and a4 <= 4 or P("full", False)
    post: _
    """
    kk = pick(6, k)
    names = [FNAMES[pick(3, n)] for n in (n0, n1, n2, n3, n4)][:kk]
    attrs = [FATTRS[pick(len(FATTRS), a)] for a in (a0, a1, a2, a3, a4)][:kk]
    with untraced():
        src = "<p>" + "".join("<%s%s>" % (n, a) for n, a in zip(names, attrs)) + "x</p>y"
        def canon(a):
            parts = sorted(x.lower() for x in a.split())
            return tuple(parts)
        # R4: the list of active formatting elements after pushing with the Noah's-ark clause (at most 3 entries with the same
        # name, namespace and attributes; the earliest is removed); </p> pops them from the stack but not from the list; the
        # character 'y' reconstructs all of them, in order
        afe = []
        for n, a in zip(names, attrs):
            same = [i for i, (m, b) in enumerate(afe) if m == n and b == canon(a)]
            if len(same) >= 3:
                del afe[same[0]]
            afe.append((n, canon(a)))
        t = html5lib.parse(src, treebuilder="dom")
        body = t.getElementsByTagName("body")[0]
        # expected: body = [p ..., chain of clones with 'y' inside]
        chain = []
        node = body.childNodes[1] if body.childNodes.length > 1 else None
        while node is not None and node.nodeType == node.ELEMENT_NODE:
            chain.append((node.nodeName, tuple(sorted("%s=%s" % (node.attributes.item(i).name, node.attributes.item(i).value) for i in range(node.attributes.length)))))
            node = node.firstChild
        text_ok = node is not None and node.nodeType == node.TEXT_NODE and node.nodeValue == "y"
        return text_ok and chain == afe


def sig_older_revision(**kw):
    """the stack contains template / rb / rtc, or the fragment context is td / th / head / template"""
    if "ci" in kw:
        return CONTEXTS[kw["ci"]] in ("td", "th", "head", "template")
    if "ex" in kw:
        return any(IMPL_ALPHA[kw[k]][0] in ("rb", "rtc") or IMPL_ALPHA[kw[k]] == ("p", SVG) for k in ("s0", "s1", "s2", "s3")[:kw["d"]])
    return any(STACK_ALPHA[kw[k]][0] == "template" for k in ("s0", "s1", "s2", "s3")[:kw["d"]])


# ---------------------------------------------------------------- adoption agency: outer-loop bound (8 iterations)
def adoption_outer_loop(k: int, fi: int) -> bool:
    """
    pre: 0 <= k <= 12 and 0 <= fi <= 2
    post: _
    """
    kk = 0
    while kk < k:
        kk += 1
    f = ("b", "i", "a")[pick(3, fi)]
    with untraced():
        # <f> + k nested block elements + 'x</f>y'.  Every run of the adoption agency's outer loop moves the formatting element
        # one block level down (furthest block = the next div) and one more run (no furthest block) finishes; the standard runs the
        # outer loop at most 8 times, so k blocks need k + 1 runs: 'y' ends up outside every <f> for k <= 7 and inside the last
        # clone for k >= 8.  'x' is always inside an <f>.
        src = "<%s>" % f + "<div>" * kk + "x</%s>y" % f
        t = html5lib.parse(src, treebuilder="dom")
        def text_node(node, s):
            for c in node.childNodes:
                if c.nodeType == c.TEXT_NODE and c.nodeValue == s:
                    return c
                if c.nodeType == c.ELEMENT_NODE:
                    r = text_node(c, s)
                    if r is not None:
                        return r
            return None
        def inside(n, name):
            n = n.parentNode
            while n is not None and n.nodeType == n.ELEMENT_NODE:
                if n.nodeName == name:
                    return True
                n = n.parentNode
            return False
        x, y = text_node(t, "x"), text_node(t, "y")
        if x is None or y is None:
            return False
        if kk == 0:
            return inside(x, f) and not inside(y, f)
        return inside(x, f) and (inside(y, f) == (kk >= 8))

# ---------------------------------------------------------------- table text: only ASCII whitespace stays inside the table
def table_text(t: str, ctx: int) -> bool:
    """
    pre: 1 <= len(t) <= P("tlen", 2) and 0 <= ctx <= 2
    pre: all(ch not in "<&" and ch != chr(0) and ch != chr(13) and not (chr(0xD800) <= ch <= chr(0xDFFF)) for ch in t)
    post: _
    """
    from harness.parsecommon import ChunkSrc
    from html5lib import _inputstream
    _inputstream.HTMLUnicodeInputStream.characterErrorsUCS4 = lambda self, data: None     # invalid-code-point scan realises symbolic text; decided in C05
    opener = ("<table>", "<table><tbody>", "<table><tr>")[pick(3, ctx)]
    p = html5parser.HTMLParser(tree=builder("dom"))
    doc = p.parse(ChunkSrc([opener, t, "</table>"]))
    table = doc.getElementsByTagName("table")[0]
    def has_text(node):
        for c in node.childNodes:
            if c.nodeType == c.TEXT_NODE and c.nodeValue != "":
                return True
            if c.nodeType == c.ELEMENT_NODE and has_text(c):
                return True
        return False
    inside = has_text(table)
    # standard ("in table text"): pending characters are inserted in place iff ALL of them are ASCII whitespace
    # (TAB, LF, FF, CR, SPACE); otherwise they are foster-parented in front of the table
    allws = all(ch in "\t\n\x0c\r " for ch in t)
    return inside == allws
