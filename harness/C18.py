"""C18 — alphabetical-attributes filter only reorders, deterministically.

Units executed symbolically: alphabeticalattributes._attr_key and Filter.__iter__ (real code from /repo).
"""
from collections import OrderedDict
from typing import Optional
from html5lib.filters import alphabeticalattributes as aa
from harness.common import P

# attribute-key alphabet with the collision shapes: same local name under None / '' / two namespaces,
# a namespace equal to a local name, prefix pairs.  Keys are drawn from it by SYMBOLIC INDEX (symbolic dict
# keys would be hashed, i.e. realised); the sort-key lemma below is on unbounded strings.
KEYS = [(None, "x"), ("", "x"), ("n", "x"), ("x", "n"), (None, "xa"), ("n", "a"), (None, "n"), ("m", "x"), ("n", ""), (None, "X")]
NK = len(KEYS)

def spec_key(k):
    ns, name = k
    return ("" if ns is None else ns, name)

def attr_key_lemma(ns: Optional[str], name: str, v: str) -> bool:
    """
    post: _
    """
    # the real key function equals the documented key (namespace or '', local name) and its first component is
    # always a str (so tuple comparison never meets None vs str).  Injectivity/order-consistency of the
    # documented key on contract-respecting keys is the z3 obligation C18.spec-key.injective.
    k = aa._attr_key(((ns, name), v))
    return type(k) is tuple and len(k) == 2 and type(k[0]) is str and k[0] == ("" if ns is None else ns) and k[1] is name

def _token(typ, idx, vals):
    d = OrderedDict()
    for i, v in zip(idx, vals):
        d[KEYS[i]] = v
    return {"type": typ, "name": "e", "namespace": None, "data": d}

def filter_sorts(typ: str, k: int, i0: int, i1: int, i2: int, v0: str, v1: str, v2: str) -> bool:
    """
    pre: typ == P("typ", typ) and i0 == P("i0", i0)
    pre: typ in ("StartTag", "EmptyTag")
    pre: 0 <= k <= 3
    pre: 0 <= i0 < NK and 0 <= i1 < NK and 0 <= i2 < NK
    pre: i0 != i1 and i1 != i2 and i0 != i2
    post: _
    """
    idx, vals = [i0, i1, i2][:k], [v0, v1, v2][:k]
    tok = _token(typ, idx, vals)
    out = list(aa.Filter([tok]))
    if len(out) != 1 or out[0]["type"] != typ or out[0]["name"] != "e":
        return False
    items = list(out[0]["data"].items())
    # same attributes, none lost / merged / altered
    if len(items) != k:
        return False
    for i, v in zip(idx, vals):
        hit = [val for (key, val) in items if key == KEYS[i] and type(key[0]) is type(KEYS[i][0])]
        if len(hit) != 1 or hit[0] is not v:
            return False
    # ordered by (namespace or '', local name)
    ks = [spec_key(key) for key, _ in items]
    for a, b in zip(ks, ks[1:]):
        if a > b:
            return False
    # independent of the incoming order (up to the position of keys with equal sort key, which only
    # happens for a namespace '' next to None, outside the walker/lint contract)
    tok2 = _token(typ, idx[::-1], vals[::-1])
    items2 = list(list(aa.Filter([tok2]))[0]["data"].items())
    if [spec_key(key) for key, _ in items2] != ks:
        return False
    if not any(KEYS[i][0] == "" for i in idx) and items2 != items:
        return False
    return True

def filter_passes_others(typ: str, k: int, i0: int, i1: int, v0: str, v1: str) -> bool:
    """
    pre: len(typ) >= 1 and typ not in ("StartTag", "EmptyTag")
    pre: 0 <= k <= 2
    pre: 0 <= i0 < NK and 0 <= i1 < NK and i0 != i1
    post: _
    """
    tok = _token(typ, [i0, i1][:k], [v0, v1][:k])
    data = tok["data"]
    before = list(data.items())
    t2 = {"type": "Characters", "data": v0}
    out = list(aa.Filter([tok, t2]))
    return len(out) == 2 and out[0] is tok and out[1] is t2 and tok["data"] is data and list(data.items()) == before and tok["type"] == typ

def filter_stream_order(ta: str, tb: str, tc: str) -> bool:
    """
    pre: len(ta) >= 1 and len(tb) >= 1 and len(tc) >= 1
    post: _
    """
    toks = [_token(t, [2, 0], ["p", "q"]) for t in (ta, tb, tc)]
    out = list(aa.Filter(toks))
    return len(out) == 3 and all(o is t for o, t in zip(out, toks))
