"""Shared helpers for harness modules."""
import os, json, sys
PARAM = json.loads(os.environ.get("VERIF_PARAM", "{}") or "{}")

def P(key, default=None):
    return PARAM.get(key, default)
