"""C13 — the optional-tags filter removes only tags HTML allows to be omitted.

Units executed symbolically: optionaltags.Filter.is_optional_start / is_optional_end / slider / __iter__
(the real methods from /repo).  All names and token types are UNBOUNDED symbolic strings.
"""
from typing import List
from html5lib.filters import optionaltags
from harness.common import P
from engine import findings

F = optionaltags.Filter([])
NMAX = P('n', 4)
OPT_START = ("html", "head", "body", "colgroup", "tbody")
OPT_END = ("html", "head", "body", "li", "dt", "dd", "p", "rt", "rp", "optgroup", "option", "colgroup",
           "thead", "tbody", "tfoot", "tr", "td", "th")

# ---------------------------------------------------------------- R5: the standard's "optional tags" rules
# over the (previous, token, next) window.  Permissive wherever revisions of the standard differ
# (both the HTML5 and the 2020 living-standard lists are accepted).
P_FOLLOW = ("address", "article", "aside", "blockquote", "details", "div", "dl", "fieldset", "figcaption",
            "figure", "footer", "form", "h1", "h2", "h3", "h4", "h5", "h6", "header", "hgroup", "hr", "main",
            "menu", "nav", "ol", "p", "pre", "section", "table", "ul",
            "datagrid", "dialog", "dir", "center", "summary")      # older revisions / parser's p-closing list
P_PARENT_FORBIDS = ("a", "audio", "del", "ins", "map", "noscript", "video")

def _elem(tok, names):
    return tok is not None and tok["type"] in ("StartTag", "EmptyTag") and tok["name"] in names

def _no_more_content(tok):
    return tok is None or tok["type"] == "EndTag"

def r5_start_allowed(name, prev, nxt):
    t = nxt["type"] if nxt is not None else None
    if name == "html":
        return t != "Comment"
    if name == "head":
        return t in ("StartTag", "EmptyTag") or (t == "EndTag" and nxt["name"] == "head")
    if name == "body":
        if t in ("Comment", "SpaceCharacters"):
            return False
        return not _elem(nxt, ("meta", "link", "script", "style", "template"))
    if name == "colgroup":
        if not _elem(nxt, ("col",)):
            return False
        # "... not immediately preceded by another colgroup element whose end tag has been omitted":
        # omitted == the filter itself would omit it (token is this start tag)
        if prev is not None and prev["type"] == "EndTag" and prev["name"] == "colgroup" and \
                F.is_optional_end("colgroup", {"type": "StartTag", "name": "colgroup", "data": {}}):
            return False
        return True
    if name == "tbody":
        if not _elem(nxt, ("tr",)):
            return False
        if prev is not None and prev["type"] == "EndTag" and prev["name"] in ("tbody", "thead", "tfoot") and \
                F.is_optional_end(prev["name"], {"type": "StartTag", "name": "tbody", "data": {}}):
            return False
        return True
    return False

def r5_end_allowed(name, nxt):
    t = nxt["type"] if nxt is not None else None
    if name in ("html", "body"):
        return t != "Comment"
    if name == "head":
        return t not in ("Comment", "SpaceCharacters")
    if name == "li":
        return _elem(nxt, ("li",)) or _no_more_content(nxt)
    if name == "dt":
        return _elem(nxt, ("dt", "dd"))
    if name == "dd":
        return _elem(nxt, ("dt", "dd")) or _no_more_content(nxt)
    if name == "p":
        if _elem(nxt, P_FOLLOW):
            return True
        if nxt is None:
            return True
        return t == "EndTag" and nxt["name"] not in P_PARENT_FORBIDS
    if name in ("rt", "rp"):
        return _elem(nxt, ("rt", "rp")) or _no_more_content(nxt)
    if name == "optgroup":
        return _elem(nxt, ("optgroup", "hr")) or _no_more_content(nxt)
    if name == "option":
        return _elem(nxt, ("option", "optgroup", "hr")) or _no_more_content(nxt)
    if name == "colgroup":
        return t not in ("Comment", "SpaceCharacters")
    if name == "thead":
        return _elem(nxt, ("tbody", "tfoot"))
    if name == "tbody":
        return _elem(nxt, ("tbody", "tfoot")) or _no_more_content(nxt)
    if name == "tfoot":
        return _elem(nxt, ("tbody",)) or _no_more_content(nxt)
    if name == "tr":
        return _elem(nxt, ("tr",)) or _no_more_content(nxt)
    if name in ("td", "th"):
        return _elem(nxt, ("td", "th")) or _no_more_content(nxt)
    return False

# ---------------------------------------------------------------- known-finding signatures
def sig_p_before_forbidding_parent_end(tagname, hasnext, nexttype, nextname, **_):
    """</p> omitted in front of the end tag of a, audio, del, ins, map, noscript, video."""
    return tagname == "p" and hasnext and nexttype == "EndTag" and nextname in P_PARENT_FORBIDS

def sig_body_before_head_content(tagname, hasnext, nexttype, nextname, **_):
    """<body> omitted in front of meta / link / template (script/style are handled by the filter)."""
    return tagname == "body" and hasnext and nexttype in ("StartTag", "EmptyTag") and \
        nextname in ("meta", "link", "script", "style", "template")

def _tok(has, typ, name, nonempty=False):
    if not has:
        return None
    return {"type": typ, "name": name, "data": ({(None, "k"): "v"} if nonempty else {})}

# ---------------------------------------------------------------- obligations
def start_only_optional(tagname: str, hasprev: bool, prevtype: str, prevname: str,
                        hasnext: bool, nexttype: str, nextname: str) -> bool:
    """
    pre: len(tagname) >= 1 and len(prevtype) >= 1 and len(nexttype) >= 1
    post: _
    """
    r = F.is_optional_start(tagname, _tok(hasprev, prevtype, prevname), _tok(hasnext, nexttype, nextname))
    return (not r) or tagname in OPT_START

def end_only_optional(tagname: str, hasnext: bool, nexttype: str, nextname: str) -> bool:
    """
    pre: len(tagname) >= 1 and len(nexttype) >= 1
    post: _
    """
    r = F.is_optional_end(tagname, _tok(hasnext, nexttype, nextname))
    return (not r) or tagname in OPT_END

def start_position_rule(tagname: str, hasprev: bool, prevtype: str, prevname: str,
                        hasnext: bool, nexttype: str, nextname: str) -> bool:
    """
    pre: len(tagname) >= 1 and len(prevtype) >= 1 and len(nexttype) >= 1
    pre: not (findings.active("C13-body-start-before-meta-link") and sig_body_before_head_content(tagname, hasnext, nexttype, nextname))
    post: _
    """
    prev, nxt = _tok(hasprev, prevtype, prevname), _tok(hasnext, nexttype, nextname)
    r = F.is_optional_start(tagname, prev, nxt)
    return (not r) or r5_start_allowed(tagname, prev, nxt)

def end_position_rule(tagname: str, hasnext: bool, nexttype: str, nextname: str) -> bool:
    """
    pre: len(tagname) >= 1 and len(nexttype) >= 1
    pre: not (findings.active("C13-p-end-before-a-end") and sig_p_before_forbidding_parent_end(tagname, hasnext, nexttype, nextname))
    post: _
    """
    nxt = _tok(hasnext, nexttype, nextname)
    r = F.is_optional_end(tagname, nxt)
    return (not r) or r5_end_allowed(tagname, nxt)

def slider_windows(xs: List[int]) -> bool:
    """
    pre: len(xs) <= 5
    post: _
    """
    f = optionaltags.Filter(list(xs))
    got = list(f.slider())
    n = len(xs)
    want = [((xs[i - 1] if i >= 1 else None), xs[i], (xs[i + 1] if i + 1 < n else None)) for i in range(n)]
    return got == want

def _mk_stream(n, types, names, hasattrs):
    return [{"type": types[i], "name": names[i], "data": ({(None, "k"): "v"} if hasattrs[i] else {})} for i in range(n)]

class _Stub(optionaltags.Filter):
    """Real slider/__iter__, with the two predicates replaced by arbitrary (symbolic) answers that
    record how they were asked.  The predicates themselves are decided by the obligations above."""
    def __init__(self, source, answers):
        optionaltags.Filter.__init__(self, source)
        self.answers = answers
        self.calls = []
    def _ans(self):
        return self.answers[len(self.calls) - 1] if len(self.calls) <= len(self.answers) else False
    def is_optional_start(self, tagname, previous, next):
        self.calls.append(("start", tagname, previous, next))
        return self._ans()
    def is_optional_end(self, tagname, next):
        self.calls.append(("end", tagname, None, next))
        return self._ans()

def iter_dispatch(n: int, t0: str, a0: bool, t1: str, a1: bool, t2: str, a2: bool, t3: str, a3: bool,
                  d0: bool, d1: bool, d2: bool, d3: bool) -> bool:
    """
    pre: 0 <= n <= NMAX
    pre: len(t0) >= 1 and len(t1) >= 1 and len(t2) >= 1 and len(t3) >= 1
    post: _
    """
    toks = _mk_stream(n, (t0, t1, t2, t3), ("n0", "n1", "n2", "n3"), (a0, a1, a2, a3))
    snap = [dict(t, data=dict(t["data"])) for t in toks]
    f = _Stub(toks, [d0, d1, d2, d3])
    out = list(f)
    if toks != snap:
        return False            # tokens are never altered
    exp = []
    k = 0                       # index into recorded predicate calls
    for i, t in enumerate(toks):
        prev = toks[i - 1] if i >= 1 else None
        nxt = toks[i + 1] if i + 1 < n else None
        if t["type"] == "StartTag" and not t["data"]:
            if k >= len(f.calls):
                return False
            c = f.calls[k]
            if not (c[0] == "start" and c[1] is t["name"] and c[2] is prev and c[3] is nxt):
                return False
            if not f.answers[k]:
                exp.append(t)
            k += 1
        elif t["type"] == "EndTag":
            if k >= len(f.calls):
                return False
            c = f.calls[k]
            if not (c[0] == "end" and c[1] is t["name"] and c[3] is nxt):
                return False
            if not f.answers[k]:
                exp.append(t)
            k += 1
        else:
            exp.append(t)       # everything else (incl. start tags with attributes) passes through
    if k != len(f.calls):
        return False            # the predicates are consulted for nothing else
    return len(out) == len(exp) and all(x is y for x, y in zip(out, exp))

def iter_only_deletes(n: int, t0: str, n0: str, a0: bool, t1: str, n1: str, a1: bool) -> bool:
    """
    pre: 0 <= n <= 2
    pre: n < 1 or (len(n0) >= 1 and len(t0) >= 1)
    pre: n < 2 or (len(n1) >= 1 and len(t1) >= 1)
    pre: n < 2 or t1 in ("Characters", "Comment", "SpaceCharacters", "EmptyTag", "Doctype")
    post: _
    """
    # end-to-end with the real predicates: a focus token followed by an arbitrary non-tag neighbour
    toks = _mk_stream(n, (t0, t1), (n0, n1), (a0, a1))
    out = list(optionaltags.Filter(toks))
    j = 0
    deleted = []
    for i, t in enumerate(toks):
        if j < len(out) and out[j] is t:
            j += 1
        else:
            deleted.append(i)
    if j != len(out):
        return False
    for i in deleted:
        t = toks[i]
        if t["type"] == "StartTag":
            if t["data"] or t["name"] not in OPT_START:
                return False
        elif t["type"] == "EndTag":
            if t["name"] not in OPT_END:
                return False
        else:
            return False
    return True

# ---------------------------------------------------------------- API-level replays for the known findings
def replay_tree_roundtrip(doc):
    """parse(doc) -> serialize(omit_optional_tags=True) -> parse must equal parse(doc)."""
    import html5lib
    from html5lib import serializer, treewalkers
    t1 = html5lib.parse(doc, treebuilder="dom")
    s = serializer.HTMLSerializer(omit_optional_tags=True, quote_attr_values="always")
    out = s.render(treewalkers.getTreeWalker("dom")(t1))
    t2 = html5lib.parse(out, treebuilder="dom")
    return t1.toxml() == t2.toxml()
