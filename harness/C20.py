"""C20 — XML-name coercion always yields legal names and is reversible.

Units executed symbolically: InfosetFilter.toXmlName / fromXmlName / coerceElement / coerceAttribute /
coerceComment / coercePubid (real code from /repo).  Name characters are drawn BY SYMBOLIC INDEX from a class
alphabet (set(findall()) and "%05X" % ord() hash / realise symbolic characters); the character classes
themselves are decided for every BMP code point in harness/C20_z3.py.
"""
import warnings
from html5lib import _ihatexml as X
from harness.common import P
from harness.C20_z3 import expat_accepts, PUBID

warnings.simplefilter("ignore")

# one representative per (legal-first, legal-later) class + the escape alphabet + ':'
ALPHA = P("alpha", ["a", "1", "-", ":", " ", "U", "0", "A", "·", "\x00", "ー", "F"])
NA = len(ALPHA)
LMAX = P("len", 3)
FIRST = P("first", None)      # split: first character index fixed per worker

def _name(k, i0, i1, i2, i3):
    return "".join(ALPHA[i] for i in (i0, i1, i2, i3)[:k])

def _has_escape_pattern(n):
    HEX = "0123456789ABCDEF"
    for p in range(len(n) - 5):
        if n[p] == "U" and all(ch in HEX for ch in n[p + 1:p + 6]):
            return True
    return False

def name_coercion(k: int, i0: int, i1: int, i2: int, i3: int) -> bool:
    """
    pre: 1 <= k <= LMAX
    pre: 0 <= i0 < NA and 0 <= i1 < NA and 0 <= i2 < NA and 0 <= i3 < NA
    pre: FIRST is None or i0 == FIRST
    post: _
    """
    n = _name(k, i0, i1, i2, i3)
    f = X.InfosetFilter()
    out = f.toXmlName(n)
    if f.coerceElement(n) != out or f.coerceAttribute(n) != out:
        return False
    # (1) always a name an XML parser accepts
    if not expat_accepts(out):
        return False
    # (2) legal, colon-free names are unchanged
    if expat_accepts(n) and ":" not in n and out != n:
        return False
    # (3) reversible unless the original already contains an escape pattern
    if not _has_escape_pattern(n) and f.fromXmlName(out) != n:
        return False
    # a fresh filter (empty replacement cache) gives the same answer as a warmed one
    if X.InfosetFilter().toXmlName(n) != f.toXmlName(n):
        return False
    return True

def name_injective(k: int, i0: int, i1: int, i2: int, j: int, m0: int, m1: int, m2: int) -> bool:
    """
    pre: 1 <= k <= 2 and 1 <= j <= 3 and (j <= 2 or m2 == m1)
    pre: 0 <= i0 < NA and 0 <= i1 < NA and 0 <= i2 < NA and 0 <= m0 < NA and 0 <= m1 < NA and 0 <= m2 < NA
    pre: FIRST is None or i0 == FIRST
    post: _
    """
    a = _name(k, i0, i1, i2, 0)
    b = _name(j, m0, m1, m2, 0)
    f = X.InfosetFilter()
    if a == b or _has_escape_pattern(a) or _has_escape_pattern(b):
        return True
    return f.toXmlName(a) != f.toXmlName(b)

def comment_coercion(data: str, dd: bool, de: bool) -> bool:
    """
    pre: len(data) <= LMAX + 2
    post: _
    """
    f = X.InfosetFilter(preventDoubleDashComments=dd, preventDashAtCommentEnd=de)
    out = f.coerceComment(data)
    if dd and ("--" in out or out.endswith("-")):
        return False
    if de and out.endswith("-"):
        return False
    if not dd and not de and out != data:
        return False
    # only spaces are inserted: removing the inserted spaces gives the original back
    if out != data:
        i = 0
        for ch in out:
            if i < len(data) and ch == data[i]:
                i += 1
            elif ch != " ":
                return False
        if i != len(data):
            return False
    return True

PALPHA = ["a", "'", " ", "\"", "<", "é", "U", "0", "\x00", "%"]
NP = len(PALPHA)

def pubid_coercion(k: int, i0: int, i1: int, i2: int, sq: bool) -> bool:
    """
    pre: 0 <= k <= 3
    pre: 0 <= i0 < NP and 0 <= i1 < NP and 0 <= i2 < NP
    pre: FIRST is None or i0 == FIRST
    post: _
    """
    s = "".join(PALPHA[i] for i in (i0, i1, i2)[:k])
    f = X.InfosetFilter(preventSingleQuotePubid=sq)
    out = f.coercePubid(s)
    for ch in out:
        if ch not in PUBID:
            return False
    if sq and "'" in out:
        return False
    if all(ch in PUBID for ch in s) and not (sq and "'" in s) and out != s:
        return False
    return True

def attribute_flags(i0: int, i1: int, drop1: bool, drop2: bool, nsx: bool) -> bool:
    """
    pre: 0 <= i0 < NA and 0 <= i1 < NA
    post: _
    """
    f = X.InfosetFilter(dropXmlnsLocalName=drop1, dropXmlnsAttrNs=drop2)
    tail = ALPHA[i0] + ALPHA[i1]
    ns = "http://www.w3.org/2000/xmlns/" if nsx else None
    r1 = f.coerceAttribute("xmlns:" + tail, ns)
    r2 = f.coerceAttribute("a" + tail, ns)
    if drop1:
        if r1 is not None:
            return False
    elif drop2 and nsx:
        if r1 is not None:
            return False
    elif r1 is None or not expat_accepts(r1):
        return False
    if drop2 and nsx:
        return r2 is None
    return r2 is not None and expat_accepts(r2)
