"""C11 — tree walkers emit a well-formed stream that reproduces the tree; C19 — the SAX adapter delivers it faithfully.

Units (real code from /repo): treewalkers/base.py TreeWalker.text and NonRecursiveTreeWalker.__iter__, treewalkers/etree.py
and treewalkers/dom.py node access, filters/lint.py, treeadapters/sax.py to_sax - over SYMBOLICALLY SHAPED trees:
<= 3 nodes under a root, parent vector / node kind / element name+namespace / attribute set / text all chosen by symbolic
index, built with the real tree-builder node classes of both back ends; the walk may start at the document, at a
fragment, or at ANY element of the tree.  TreeWalker.text runs on fully symbolic Unicode text.
"""
from harness.common import P
from harness import parsecommon as pc
from harness.parsecommon import pick, untraced, builder, HTML_NS
from html5lib import treewalkers, constants
from html5lib.constants import namespaces, voidElements
from html5lib.filters import lint
from html5lib.treewalkers import base as twbase
import xml.etree.ElementTree as ET

SP = "\t\n\x0c\r "
SVG = namespaces["svg"]

# ---------------------------------------------------------------- text kernel (fully symbolic)
def text_split(d: str) -> bool:
    """
    pre: len(d) <= P("tlen", 3)
    post: _
    """
    toks = list(twbase.TreeWalker([]).text(d))
    if "".join(t["data"] for t in toks) != d:
        return False
    if any(t["data"] == "" for t in toks):
        return False
    types = [t["type"] for t in toks]
    if types not in ([], ["SpaceCharacters"], ["Characters"], ["SpaceCharacters", "Characters"], ["Characters", "SpaceCharacters"], ["SpaceCharacters", "Characters", "SpaceCharacters"]):
        return False
    for t in toks:
        if t["type"] == "SpaceCharacters":
            if any(ch not in SP for ch in t["data"]):
                return False
        else:
            if t["data"][0] in SP or t["data"][-1] in SP:
                return False
    return True

# ---------------------------------------------------------------- symbolic tree shapes
ELEMS = [("div", HTML_NS), ("br", HTML_NS), ("br", SVG), ("p", None), ("a:b", HTML_NS)]
TEXTS = [" x ", "\n"]
ATTRS = [{}, {"a": "1"}, {"x:y": "1"}, {("xlink", "href", namespaces["xlink"]): "u", "b": ""}, {("xmlns", "xlink", namespaces["xmlns"]): "n"}, {(None, "xmlns", namespaces["xmlns"]): "m"}]
NKINDS = len(ELEMS) + len(TEXTS) + 1          # elements, texts, comment
START = P("start", None)
NNODES = P("nodes", 3)
ATTRMODE = P("attrmode", False)

def _spec(n, kinds, parents, attrs):
    """-> list of (kind description, parent index) or None if the shape is not a tree the parser can build"""
    spec = []
    for i in range(n):
        k = kinds[i]
        p = parents[i]
        if p > i:                          # parent index: 0 = root, j = node j-1
            return None
        if p > 0 and spec[p - 1][0][0] != "elem":
            return None                    # only elements have children
        if k < len(ELEMS):
            desc = ("elem", ELEMS[k], ATTRS[attrs[i]])
        elif k < len(ELEMS) + len(TEXTS):
            desc = ("text", TEXTS[k - len(ELEMS)])
            if attrs[i] != 0:
                return None
            # adjacent text nodes do not occur in parsed trees (the builders merge text)
            sib = [s for s in spec if s[1] == p]
            if sib and sib[-1][0][0] == "text":
                return None
        else:
            desc = ("comment", "c")
            if attrs[i] != 0:
                return None
        spec.append((desc, p))
    return spec

def _build(kind, spec, root_kind, ns_on):
    """build the tree with the REAL tree-builder node classes; returns (root wrapper, [node wrappers])"""
    tb = builder(kind)(ns_on)
    top = None
    if root_kind == 0:
        # a parsed document: doctype, a comment, then exactly one root element that holds the nodes
        top = tb.document
        tb.insertDoctype({"name": "html", "publicId": None, "systemId": None})
        top.appendChild(tb.commentClass("d"))
        root = tb.elementClass("html", HTML_NS if ns_on else None)
        top.appendChild(root)
    elif root_kind == 1:
        root = tb.fragmentClass()
    else:
        root = tb.elementClass("html", HTML_NS if ns_on else None)
    if kind == "dom" and root_kind == 2:
        pass
    nodes = []
    for (desc, p) in spec:
        parent = root if p == 0 else nodes[p - 1]
        if desc[0] == "elem":
            name, ns = desc[1]
            if ns == HTML_NS and not ns_on:
                ns = None
            el = tb.elementClass(name, ns)
            if desc[2]:
                el.attributes = dict(desc[2])
            parent.appendChild(el)
            nodes.append(el)
        elif desc[0] == "text":
            parent.insertText(desc[1])
            nodes.append(None)
        else:
            c = tb.commentClass(desc[1])
            parent.appendChild(c)
            nodes.append(c)
    _KEEP.append(tb)        # the dom document wrapper is a weak proxy of the builder
    del _KEEP[:-4]
    return (top if top is not None else root), nodes

_KEEP = []

def _raw(kind, wrapper):
    if kind == "dom":
        return wrapper.element if hasattr(wrapper, "element") else wrapper.dom      # the dom builder's document wrapper is the builder itself
    return wrapper._element

# ---------------------------------------------------------------- reference stream (R7 -> expected tokens)
def _ref_text(d):
    out = []
    i = 0
    while i < len(d) and d[i] in SP:
        i += 1
    j = len(d)
    while j > i and d[j - 1] in SP:
        j -= 1
    if i > 0:
        out.append(("SpaceCharacters", d[:i]))
    if j > i:
        out.append(("Characters", d[i:j]))
    if j < len(d):
        out.append(("SpaceCharacters", d[j:]))
    return out

def _ref_attrs(a):
    out = {}
    for k, v in a.items():
        if isinstance(k, tuple):
            out[(k[2], k[1])] = v
        else:
            out[(None, k)] = v
    return out

def _ref_stream(spec, idx, ns_on, top):
    """expected tokens for the subtree rooted at node idx (0 = the root container)"""
    out = []
    kids = [i + 1 for i, (d, p) in enumerate(spec) if p == idx]
    def emit_children():
        for c in kids:
            out.extend(_ref_stream(spec, c, ns_on, False))
    if idx == 0:
        if top in (0, 2):       # root element "html" (top == 0: inside a document after doctype and comment)
            ns = HTML_NS if ns_on else None
            if top == 0:
                out.append(("Doctype", "html", None, None))
                out.append(("Comment", "d"))
            out.append(("StartTag", ns, "html", {}))
            emit_children()
            out.append(("EndTag", ns, "html"))
        else:
            emit_children()
        return out
    desc = spec[idx - 1][0]
    if desc[0] == "text":
        return _ref_text(desc[1])
    if desc[0] == "comment":
        return [("Comment", desc[1])]
    name, ns = desc[1]
    if ns == HTML_NS and not ns_on:
        ns = None
    attrs = _ref_attrs(desc[2])
    if (ns is None or ns == HTML_NS) and name in VOID:
        return [("EmptyTag", ns, name, attrs)] + ([("SerializerError",)] if kids else [])
    out.append(("StartTag", ns, name, attrs))
    emit_children()
    out.append(("EndTag", ns, name))
    return out

VOID = ("area", "base", "br", "col", "embed", "hr", "img", "input", "link", "meta", "param", "source", "track", "wbr", "command", "event-source", "keygen", "basefont", "bgsound", "frame")

def _norm_stream(tokens):
    out = []
    for t in tokens:
        ty = t["type"]
        if ty in ("StartTag", "EmptyTag"):
            out.append((ty, t["namespace"], t["name"], dict(t["data"])))
        elif ty == "EndTag":
            out.append((ty, t["namespace"], t["name"]))
        elif ty in ("Characters", "SpaceCharacters"):
            out.append((ty, t["data"]))
        elif ty == "Comment":
            out.append((ty, t["data"]))
        elif ty == "Doctype":
            out.append((ty, t["name"], t["publicId"] or None, t["systemId"] or None))
        elif ty == "SerializerError":
            out.append((ty,))
        else:
            out.append((ty, repr(t)))
    return out

def _merge_text(stream):
    out = []
    for t in stream:
        if t[0] in ("Characters", "SpaceCharacters"):
            if out and out[-1][0] == "text":
                out[-1] = ("text", out[-1][1] + t[1])
            else:
                out.append(("text", t[1]))
        else:
            out.append(t)
    return out

def _decode(n, k0, k1, k2, p0, p1, p2, a0, a1, a2):
    n = pick(NNODES + 1, n)
    kinds = [pick(NKINDS, k) for k in (k0, k1, k2)][:n]
    parents = [pick(NNODES + 1, p) for p in (p0, p1, p2)][:n]
    attrs = [pick(len(ATTRS), a) for a in (a0, a1, a2)][:n]
    return n, _spec(n, kinds, parents, attrs)

def walk(n: int, k0: int, k1: int, k2: int, p0: int, p1: int, p2: int, a0: int, a1: int, a2: int, start: int, ns_on: bool) -> bool:
    """
    pre: 0 <= n <= NNODES
    pre: 0 <= k0 < NKINDS and 0 <= k1 < NKINDS and 0 <= k2 < NKINDS
    pre: 0 <= p0 <= 0 and 0 <= p1 <= 1 and 0 <= p2 <= 2
    pre: 0 <= a0 < len(ATTRS) and 0 <= a1 < len(ATTRS) and 0 <= a2 < len(ATTRS)
    pre: 0 <= start <= 2 + NNODES and (START is None or start == START)
    pre: a1 == 0 and a2 == 0 and (ATTRMODE or a0 == 0) and (not ATTRMODE or n <= 2)
    pre: (n >= 1 or (k0 == 0 and a0 == 0)) and (n >= 2 or (k1 == 0 and p1 == 0 and a1 == 0)) and (n >= 3 or (k2 == 0 and p2 == 0 and a2 == 0))
    post: _
    """
    n, spec = _decode(n, k0, k1, k2, p0, p1, p2, a0, a1, a2)
    start = pick(3 + NNODES, start)
    ns_on = bool(ns_on)
    with untraced():
        if spec is None:
            return True
        if start >= 3:                      # walk starts at node (start-3): must be an element of this tree
            si = start - 3
            if si >= n or spec[si][0][0] != "elem":
                return True
        streams = []
        for kind in ("etree-full", "dom"):
            root_kind = start if start <= 2 else 0
            root, nodes = _build(kind, spec, root_kind, ns_on)
            if start <= 2:
                tree = _raw(kind, root)
                expected = _ref_stream(spec, 0, ns_on, root_kind)
            else:
                tree = _raw(kind, nodes[start - 3])
                expected = _ref_stream(spec, start - 2, ns_on, 0)
            walker = treewalkers.getTreeWalker("etree" if kind != "dom" else "dom")
            toks = list(walker(tree))
            got = _norm_stream(toks)
            if ("SerializerError",) in expected:
                return True                 # a void element with children: not a tree the parser produces
            if got != expected:
                return False                # balance, void handling, names, text splitting, order: all in one comparison
            # the library's own lint filter accepts the stream (raises AssertionError otherwise)
            list(lint.Filter(walker(tree)))
            streams.append(_merge_text(got))
        return streams[0] == streams[1]

# ---------------------------------------------------------------- C19: SAX adapter on the same trees
class Rec:
    def __init__(self):
        self.ev = []
    def startDocument(self): self.ev.append(("startDocument",))
    def endDocument(self): self.ev.append(("endDocument",))
    def startPrefixMapping(self, p, u): self.ev.append(("startPrefix", p, u))
    def endPrefixMapping(self, p): self.ev.append(("endPrefix", p))
    def startElementNS(self, name, qname, attrs):
        a = {}
        for k in attrs.getNames():
            try:
                q = attrs.getQNameByName(k)
            except KeyError:
                q = None        # to_sax supplies qualified names for the foreign (adjusted) attributes only
            a[k] = (attrs.getValue(k), q)
        self.ev.append(("start", name, qname, a))
    def endElementNS(self, name, qname): self.ev.append(("end", name, qname))
    def characters(self, d): self.ev.append(("chars", d))

def sax(n: int, k0: int, k1: int, k2: int, p0: int, p1: int, p2: int, a0: int, a1: int, a2: int, start: int, dom: bool) -> bool:
    """
    pre: 0 <= n <= NNODES
    pre: 0 <= k0 < NKINDS and 0 <= k1 < NKINDS and 0 <= k2 < NKINDS
    pre: 0 <= p0 <= 0 and 0 <= p1 <= 1 and 0 <= p2 <= 2
    pre: 0 <= a0 < len(ATTRS) and 0 <= a1 < len(ATTRS) and 0 <= a2 < len(ATTRS)
    pre: 0 <= start <= 2 and (START is None or start == START)
    pre: a1 == 0 and a2 == 0 and (ATTRMODE or a0 == 0) and (not ATTRMODE or n <= 2)
    pre: (n >= 1 or (k0 == 0 and a0 == 0)) and (n >= 2 or (k1 == 0 and p1 == 0 and a1 == 0)) and (n >= 3 or (k2 == 0 and p2 == 0 and a2 == 0))
    post: _
    """
    from html5lib.treeadapters import sax as saxmod
    n, spec = _decode(n, k0, k1, k2, p0, p1, p2, a0, a1, a2)
    start = pick(3, start)
    with untraced():
        if spec is None:
            return True
        kind = "dom" if dom else "etree-full"
        root, nodes = _build(kind, spec, start, True)
        expected = _ref_stream(spec, 0, True, start)
        if ("SerializerError",) in expected:
            return True
        walker = treewalkers.getTreeWalker("dom" if dom else "etree")
        h = Rec()
        saxmod.to_sax(walker(_raw(kind, root)), h)
        ev = h.ev
        # exactly one startDocument / endDocument, first and last
        if [e for e in ev if e[0] == "startDocument"] != [("startDocument",)] or ev[0] != ("startDocument",):
            return False
        if [e for e in ev if e[0] == "endDocument"] != [("endDocument",)] or ev[-1] != ("endDocument",):
            return False
        # prefix mappings: those of adjustForeignAttributes, each started once after startDocument and ended once before endDocument
        want = {}
        for q, (prefix, local, ns) in constants.adjustForeignAttributes.items():
            if prefix is not None:
                want[prefix] = ns
        starts = [e for e in ev if e[0] == "startPrefix"]
        ends = [e for e in ev if e[0] == "endPrefix"]
        if sorted((e[1], e[2]) for e in starts) != sorted(want.items()) or sorted(e[1] for e in ends) != sorted(want):
            return False
        body = [e for e in ev if e[0] in ("start", "end", "chars")]
        first_body = ev.index(body[0]) if body else None
        if body and (max(ev.index(e) for e in starts) > first_body or min(len(ev) - 1 - ev[::-1].index(e) for e in ends) < len(ev) - 1 - ev[::-1].index(body[-1])):
            return False
        # events == the tree (comments and doctype omitted by design), properly nested, characters in document order
        exp = []
        for t in expected:
            if t[0] in ("StartTag", "EmptyTag"):
                attrs = {}
                for (ns, local), v in t[3].items():
                    q = constants.unadjustForeignAttributes.get((ns, local))
                    attrs[(ns, local)] = (v, q)
                exp.append(("start", (t[1], t[2]), t[2], attrs))
                if t[0] == "EmptyTag":
                    exp.append(("end", (t[1], t[2]), t[2]))
            elif t[0] == "EndTag":
                exp.append(("end", (t[1], t[2]), t[2]))
            elif t[0] in ("Characters", "SpaceCharacters"):
                exp.append(("chars", t[1]))
        # adjacent character events are compared after concatenation
        def mc(evs):
            out = []
            for e in evs:
                if e[0] == "chars" and out and out[-1][0] == "chars":
                    out[-1] = ("chars", out[-1][1] + e[1])
                else:
                    out.append(e)
            return out
        return mc(body) == mc(exp)
