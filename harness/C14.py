"""C14 — every character reference decodes to the standard's replacement.

Units executed symbolically (real code from /repo): HTMLTokenizer.consumeNumberEntity, consumeEntity,
entityDataState, characterReferenceInRcdata, processEntityInAttribute, the entity trie
(_trie/py.py has_keys_with_prefix, _trie/_base.py longest_prefix), serializer.htmlentityreplace_errors.
Reference: refs/r10_charref.py (the standard's algorithm over Python's own html.entities.html5 and
html._invalid_charrefs tables, independent of html5lib's tables).
"""
import sys
sys.modules.setdefault("_bisect", None)          # pure-Python bisect: symbolic strings are compared, not handed to C
import bisect                                     # noqa
import html5lib._tokenizer as T
from html5lib.constants import tokenTypes, entities, replacementCharacters
from harness.common import P
from harness.tokcommon import mk_tokenizer, remaining, CHARS
from refs import r10_charref as R10
from engine import findings

_REAL_INT = int
_N = [None]
def _int_stub(s, radix=10):
    """digit parsing returns an arbitrary non-negative integer (int() itself is a trusted builtin; the digit
    collection + int() is exercised unstubbed in numeric_digits)"""
    if _N[0] is None:
        return _REAL_INT(s, radix)
    return _N[0]
T.int = _int_stub

NAMES = sorted(entities)
IDX = P("names", list(range(0, 20)))          # indices (into the sorted live table) this worker covers
TAIL = P("tail", 1)

def _ctx_call(t, ctx):
    """drive consumeEntity through the real per-context entry points; returns (output text, expected next state)"""
    if ctx == 0:
        t.state = t.entityDataState
        t.entityDataState()
        want = "dataState"
    elif ctx == 1:
        t.state = t.characterReferenceInRcdata
        t.characterReferenceInRcdata()
        want = "rcdataState"
    else:
        t.currentToken = {"type": tokenTypes["StartTag"], "name": "a", "data": [["b", ""]], "selfClosing": False, "selfClosingAcknowledged": False}
        t.processEntityInAttribute({2: '"', 3: "'", 4: ">"}[ctx])
        return t.currentToken["data"][-1][1], None
    out = "".join(x["data"] for x in t.tokenQueue if x["type"] in CHARS)
    if t.state.__name__ != want:
        return None, want
    return out, want

def _ref_total(inp, in_attr):
    r, j = R10.consume(inp, 0, in_attr)
    if r is None:
        return "&" + inp
    return r + inp[j:]

def numeric_value(n: int, ishex: bool, tail: str) -> bool:
    """
    pre: n >= 0 and len(tail) <= 1
    pre: tail not in "0123456789abcdefABCDEF" or tail == ""
    post: _
    """
    t = mk_tokenizer("1" + tail)
    _N[0] = n
    try:
        out = t.consumeNumberEntity(ishex)
    finally:
        _N[0] = None
    if out != R10.numeric_value_to_string(n):
        return False
    # ';' is consumed iff present; anything else is left in the stream
    return remaining(t) == ("" if tail == ";" else tail)

DIG = "09afAF1g"      # digit class representatives (+ 'g': not a hex digit) drawn by symbolic index: int(str, radix) realises symbolic digits
KIND, CTX = P("kind", None), P("ctx", None)

def numeric_leading_zeros(kind: int, z: int, d0: int, semi: bool, ctx: int) -> bool:
    """
    pre: 0 <= kind <= 2 and 0 <= ctx <= 4 and (CTX is None or ctx == CTX)
    pre: 0 <= z <= ZMAX and 0 <= d0 < 8
    post: _
    """
    zz = 0
    while zz < z:          # realise the symbolic length by forking
        zz += 1
    inp = ("#", "#x", "#X")[_pick(3, kind)] + "0" * zz + DIG[_pick(8, d0)] + "1" + (";" if semi else "")
    t = mk_tokenizer(inp)
    out, _ = _ctx_call(t, _pick(5, ctx))
    if out is None:
        return False
    return out + remaining(t) == _ref_total(inp, ctx >= 2)

ZMAX = P("zmax", 24)
TAILS_N = [";", "", " ", "g", "G", "<", "&", "0", "\u00e9", "x", "\"", "=", ">", "'", "#"]

def numeric_digits(kind: int, nd: int, d0: int, d1: int, d2: int, tl: int, ctx: int) -> bool:
    """
    pre: 0 <= kind <= 2 and 0 <= ctx <= 4 and (KIND is None or kind == KIND) and (CTX is None or ctx == CTX)
    pre: 0 <= nd <= TAIL + 1 and 0 <= d0 < 8 and 0 <= d1 < 8 and 0 <= d2 < 8
    pre: 0 <= tl < len(TAILS_N)
    post: _
    """
    ds = "".join(DIG[_pick(8, d)] for d in (d0, d1, d2)[:_pick(4, nd)])
    inp = ("#", "#x", "#X")[_pick(3, kind)] + ds + TAILS_N[_pick(len(TAILS_N), tl)]
    t = mk_tokenizer(inp)
    out, _ = _ctx_call(t, _pick(5, ctx))
    if out is None:
        return False
    return out + remaining(t) == _ref_total(inp, ctx >= 2)

def _pick(seq_len, i):
    """concrete index from a symbolic int by an equality chain (symbolic indexing of a large list builds a huge z3 term)"""
    for k in range(seq_len):
        if i == k:
            return k
    return None

# tail classes after a name: every character that continues towards a longer name of the (independent) table,
# plus one representative of each class the algorithm distinguishes, plus EOF ("")
_GEN = [";", "=", "q", "Q", "7", " ", "<", "&", "\"", "'", ">", "#", "\u00e9", "\x00", ""]
def _tails(name):
    cont = set()
    for k in R10.NAMED:
        if len(k) > len(name) and k.startswith(name):
            cont.add(k[len(name)])
    return _GEN + sorted(cont)
_TAILS = {k: _tails(NAMES[k]) for k in IDX}     # precomputed outside symbolic execution
MAXT = max(len(v) for v in _TAILS.values())

def named(idx: int, ti: int, t2: int, ctx: int) -> bool:
    """
    pre: 0 <= idx < len(IDX) and 0 <= ctx <= 4
    pre: 0 <= ti < MAXT and 0 <= t2 < 4
    post: _
    """
    k = IDX[_pick(len(IDX), idx)]
    name = NAMES[k]
    tails = _TAILS[k]
    tk = _pick(len(tails), ti)
    if tk is None:
        return True
    sk = _pick(4, t2)
    if sk != 0 and (TAIL < 2 or name.endswith(";")):
        return True          # a second following character only matters for the semicolon-less (legacy) names
    second = ("", ";", "=", "a")[sk]
    inp = name + tails[tk] + (second if tails[tk] != "" else "")
    t = mk_tokenizer(inp)
    out, _ = _ctx_call(t, ctx)
    if out is None:
        return False
    return out + remaining(t) == _ref_total(inp, ctx >= 2)

def arbitrary(s: str, ctx: int) -> bool:
    """
    pre: 0 <= ctx <= 4 and len(s) <= TAIL + 1
    post: _
    """
    t = mk_tokenizer(s)
    out, _ = _ctx_call(t, ctx)
    if out is None:
        return False
    if ctx >= 2 and len(s) >= 1 and s[0] == {2: '"', 3: "'", 4: ">"}[ctx]:
        return out == "&" and remaining(t) == s       # the value's terminator follows '&': not a reference
    return out + remaining(t) == _ref_total(s, ctx >= 2)

# ---------------------------------------------------------------- reverse map (serializer)
def decode_text(s):
    out = ""
    i = 0
    while i < len(s):
        if s[i] == "&":
            r, j = R10.consume(s, i + 1, False)
            if r is None:
                out += "&"
                i += 1
            else:
                out += r
                i = j
        else:
            out += s[i]
            i += 1
    return out

RALPHA = ["\u00c9", "\u00dc", "a", "<", "&", "\xa0", "é", "Ā", "\x80", "\x9f", "\x81", "\U0001d504", "\U00010000", "\x00", "≂̸"[0], "￾", "\U0010ffff"]
NR = len(RALPHA)

def sig_c1_numeric(k, i0, i1, i2, start, end, **_):
    """known finding: U+0000 and the C1 controls the standard remaps cannot be written as a numeric reference"""
    return any(RALPHA[i] == "\x00" or ("\x80" <= RALPHA[i] <= "\x9f" and RALPHA[i] not in "\x81\x8d\x8f\x90\x9d") for i in (i0, i1, i2)[:k])

def reverse_map(k: int, i0: int, i1: int, i2: int, start: int, end: int) -> bool:
    """
    pre: 0 <= k <= P("kmax", 3) and 0 <= i0 < NR and 0 <= i1 < NR and 0 <= i2 < NR
    pre: P("first", None) is None or i0 == P("first", None)
    pre: 0 <= start <= end <= k
    pre: not (findings.active("C14-c1-controls-not-representable") and sig_c1_numeric(k, i0, i1, i2, start, end))
    post: _
    """
    from html5lib import serializer
    obj = "".join(RALPHA[_pick(NR, i)] for i in (i0, i1, i2)[:_pick(4, k)])
    exc = UnicodeEncodeError("ascii", obj, start, end, "x")
    rep, pos = serializer.htmlentityreplace_errors(exc)
    if pos != end:
        return False
    for ch in rep:
        if ord(ch) > 127:
            return False                 # the replacement itself must be encodable anywhere
    if decode_text(rep) != obj[start:end]:
        return False
    # the replacement is self-delimiting: whatever follows (a letter, a digit, '=') cannot change how it decodes,
    # in text and in attribute values (the attribute exception applies to semicolon-less names)
    for tail in ("x", "1", "=", ";"):
        if decode_text(rep + tail) != obj[start:end] + tail:
            return False
        j = 0
        out = ""
        s2 = rep + tail
        while j < len(s2):
            if s2[j] == "&":
                r, nj = R10.consume(s2, j + 1, True)
                if r is None:
                    out += "&"
                    j += 1
                else:
                    out += r
                    j = nj
            else:
                out += s2[j]
                j += 1
        if out != obj[start:end] + tail:
            return False
    return True
