"""Self-tests of the CrossHair adapter plugin (must-refute and must-confirm twins)."""
FS = frozenset({"ab", "cd"})
class D(dict):
    pass
DD = D({"ab": 1})
TS = frozenset({("n", "ab"), ("n", "cd")})

def fs_refute(s: str) -> bool:
    """
    post: _
    """
    return s not in FS

def fs_confirm(s: str) -> bool:
    """
    post: _
    """
    return (s in FS) == (s == "ab" or s == "cd")

def dict_refute(s: str) -> bool:
    """
    post: _
    """
    return s not in DD

def dict_confirm(s: str) -> bool:
    """
    post: _
    """
    return (s in DD) == (s == "ab")

def tuple_refute(s: str) -> bool:
    """
    post: _
    """
    return ("n", s) not in TS

def tuple_confirm(s: str, t: str) -> bool:
    """
    post: _
    """
    return ((t, s) in TS) == (t == "n" and (s == "ab" or s == "cd"))

LETTERS = frozenset("abcdefghijklmnopqrstuvwxyzABCDEFGHIJKLMNOPQRSTUVWXYZ")

def charset_confirm(c: str) -> bool:
    """
    pre: len(c) == 1
    post: _
    """
    return (c in LETTERS) == (("a" <= c <= "z") or ("A" <= c <= "Z"))

def charset_refute(c: str) -> bool:
    """
    pre: len(c) == 1
    post: _
    """
    return (c in LETTERS) == ("a" <= c <= "z")

def charset_long(c: str) -> bool:
    """
    pre: len(c) <= 2
    post: _
    """
    return (c in LETTERS) == (len(c) == 1 and (("a" <= c <= "z") or ("A" <= c <= "Z")))
