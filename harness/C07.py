"""C07 — serialize then parse is the identity on conforming documents.

Units (real code from /repo), end to end: parse -> tree walker (etree / dom) -> HTMLSerializer with its filter pipeline
(optional-tag omission, attribute sorting, ...) -> parse; compared as abstract trees.  Conforming documents are composed
by SYMBOLIC INDEX from a grammar of the HTML content model (parent context x child x separator x child); serializer
options are symbolic; the run is concrete after the fork.  Lexical faithfulness for arbitrary text / attribute values is
C08 (symbolic Unicode); walkers C11; builders C04; the filter's predicates C13.
"""
import warnings
warnings.simplefilter("ignore")
from harness.common import P
from harness.parsecommon import pick, untraced, norm_dom, norm_et, builder
from html5lib import serializer, treewalkers
import html5lib
from engine import findings

FLOW = ["<p>x</p>", "<div>y</div>", "<ul><li>a</li><li>b</li></ul>", "t", "<!--c-->", "<hr>", "<table><tbody><tr><td>d</td></tr></tbody></table>", "<dialog>g</dialog>", "<pre>\nx</pre>", "<h1>h</h1>", "<script>1<2</script>",
        "<link rel=\"stylesheet\" href=\"x\">", "<img src=\"x\" alt=\"\">", "<a href=\"y\">z</a>", "<b>w</b>", "<address>q</address>", "<dl><dt>a</dt><dd>b</dd></dl>", "<select><option>o</option></select>", "<svg><circle r=\"1\"></circle></svg>",
        "<input type=\"checkbox\" checked>", "<p></p>", "<p>u</p>", "<details><summary>s</summary>v</details>", "<form action=\"f\"><button>k</button></form>", "<meta itemprop=\"a\" content=\"b\">", "<style>p{}</style>", "<template></template>" if False else "<main>m</main>",
        "<ruby>r<rt>s</rt></ruby>", "<textarea>\ne</textarea>", "<figure><figcaption>f</figcaption></figure>"]
PHRASING = ["t", "<b>w</b>", "<!--c-->", "<img src=\"x\" alt=\"\">", "<a href=\"y\">z</a>", "<br>", "<span> s </span>", "<i></i>", "<code>&lt;</code>"]
WRAPS = [
    ("%s", FLOW), ("<div>%s</div>", FLOW), ("<a href=\"x\">%s</a>", [f for f in FLOW if "<a " not in f and "button" not in f and "select" not in f and "input" not in f and "textarea" not in f and "details" not in f]),
    ("<ins>%s</ins>", FLOW), ("<blockquote>%s</blockquote>", FLOW), ("<li>%s</li>", FLOW), ("<td>%s</td>", FLOW),
    ("<p>%s</p>", PHRASING), ("<h2>%s</h2>", PHRASING), ("<button>%s</button>", [p for p in PHRASING if "<a " not in p]),
    ("<table>%s</table>", ["<caption>c</caption>", "<colgroup><col></colgroup>", "<colgroup span=\"2\"></colgroup>", "<thead><tr><th>h</th></tr></thead>", "<tbody><tr><td>d</td></tr></tbody>", "<tbody></tbody>", "<tfoot><tr><td>f</td></tr></tfoot>", "<!--c-->"]),
    ("<table><tbody>%s</tbody></table>", ["<tr><td>a</td></tr>", "<tr><th>b</th><td>c</td></tr>", "<tr></tr>", "<!--c-->"]),
    ("<table><tbody><tr>%s</tr></tbody></table>", ["<td>a</td>", "<th>b</th>", "<td></td>", "<td><p>x</p></td>", "<!--c-->"]),
    ("<select>%s</select>", ["<option>a</option>", "<optgroup label=\"l\"><option>b</option></optgroup>", "<optgroup label=\"m\"></optgroup>", "<option></option>"]),
    ("<select><optgroup label=\"g\">%s</optgroup></select>", ["<option>a</option>", "<option></option>"]),
    ("<ruby>%s</ruby>", ["r", "<rt>s</rt>", "<rp>(</rp>", "<b>w</b>"]),
    ("<dl>%s</dl>", ["<dt>a</dt>", "<dd>b</dd>", "<dd><p>c</p></dd>", "<div><dt>d</dt><dd>e</dd></div>"]),
    ("<ul>%s</ul>", ["<li>a</li>", "<li><p>b</p></li>", "<li></li>", "<!--c-->"]),
    ("<table><colgroup>%s</colgroup></table>", ["<col>", "<col span=\"2\">", "<!--c-->"]),
    ("<svg>%s</svg>", ["<g><title>t</title></g>", "<circle r=\"1\"></circle>", "t", "<foreignObject><p>x</p></foreignObject>", "<linearGradient id=\"g\"></linearGradient>"]),
    ("<video controls>%s</video>", ["<source src=\"a\">", "<track src=\"b\">", "<p>x</p>", "t"]),
    ("<details>%s</details>", ["<summary>s</summary>", "<p>x</p>", "t"]),
]
NW = len(WRAPS)
SEPS = ["", "<!--s-->", " ", "\n"]
HEADS = ["<title>t</title>", "<meta charset=\"utf-8\"><title>t</title>", "<title>t</title><link rel=\"stylesheet\" href=\"x\"><style>a{}</style><script>1</script>", "<title>t</title><base href=\"/\"><meta name=\"a\" content=\"b\">"]
KF_SOLIDUS = findings.active("C08-unquoted-value-before-trailing-solidus")
KF_BOOL = findings.active("C08-boolean-attribute-value-dropped")
WI = P("wrap", 0)
NITEMS = len(WRAPS[WI][1])

def _doc(wi, a, b, si, hi, tail):
    tpl, items = WRAPS[wi]
    inner = items[a % len(items)] + SEPS[si] + items[b % len(items)]
    return "<!DOCTYPE html><html><head>%s</head><body>%s%s</body></html>" % (HEADS[hi], tpl % inner, ("", "z", "<p>e</p>", "<!--t-->")[tail])

def _trees(doc, walker_dom, opts):
    kind = "dom" if walker_dom else "etree"
    # full document trees (doctype included): the etree builder's default root-element form drops the doctype
    tb = builder("dom" if walker_dom else "etree-full")
    t1 = html5lib.HTMLParser(tree=tb).parse(doc)
    s = serializer.HTMLSerializer(**opts)
    out = s.render(treewalkers.getTreeWalker(kind)(t1))
    t2 = html5lib.HTMLParser(tree=tb).parse(out)
    n = norm_dom if walker_dom else norm_et
    return n(t1), n(t2), out, s.errors

def omission(wi: int, a: int, b: int, si: int, hi: int, tail: int, walker_dom: bool) -> bool:
    """
    pre: wi == WI and 0 <= a < NITEMS and 0 <= b < NITEMS and 0 <= si < P("nseps", len(SEPS)) and 0 <= hi < P("nheads", len(HEADS)) and 0 <= tail <= 3
    pre: (P("wdom", None) is None or walker_dom == P("wdom", None)) and (P("tails", None) is None or tail in P("tails", None))
    post: _
    """
    wi = WI
    a, b = pick(30, a), pick(30, b)
    si, hi, tail = pick(len(SEPS), si), pick(len(HEADS), hi), pick(4, tail)
    walker_dom = bool(walker_dom)
    with untraced():
        doc = _doc(wi, a, b, si, hi, tail)
        t1, t2, out, errors = _trees(doc, walker_dom, dict(omit_optional_tags=True))
        return t1 == t2

def options(wi: int, a: int, b: int, walker_dom: bool, omit: bool, qmode: int, qchar: int, b0: bool, b1: bool, b2: bool, b3: bool, b6: bool, b8: bool) -> bool:
    """
    pre: wi == WI and 0 <= a < NITEMS and 0 <= b < NITEMS and 0 <= qmode <= 2 and 0 <= qchar <= 1
    pre: b == (a + 1) % NITEMS and a % P("astep", 1) == 0
    pre: not (KF_SOLIDUS and b1 and not b2 and qmode != 2)
    pre: not b8 or not b3
    pre: P("wdom", None) is None or walker_dom == P("wdom", None)
    post: _
    """
    wi = WI
    a, b = pick(30, a), pick(30, b)
    q, qc = pick(3, qmode), pick(2, qchar)
    walker_dom, omit, b0, b1, b2, b3, b6, b8 = [bool(x) for x in (walker_dom, omit, b0, b1, b2, b3, b6, b8)]
    with untraced():
        doc = _doc(wi, a, b, 1, 2, 2)
        opts = dict(omit_optional_tags=omit, quote_attr_values=("legacy", "spec", "always")[q], minimize_boolean_attributes=b0, use_trailing_solidus=b1, space_before_trailing_solidus=b2,
                    escape_lt_in_attrs=b3, alphabetical_attributes=b6)
        if b8:
            opts["quote_char"] = ("\"", "'")[qc]
        t1, t2, out, errors = _trees(doc, walker_dom, opts)
        return t1 == t2
