"""C16 — strict mode raises ParseError exactly when a parse error exists.

Units (real code from /repo): HTMLParser.parse/parseFragment/mainLoop/parseError with strict on and off, every
tree-construction phase reached from the context catalogue; the tokenizer's ParseError tokens (riding on the C02
catalogue); constants.E.
"""
import re, ast, inspect
from harness.common import P
from harness import parsecommon as pc
from harness.parsecommon import pick, ChunkSrc, CONTEXTS, render_token, OTHER_TOKENS
from html5lib import html5parser, constants
from html5lib.constants import E

pc.install_substitutions()
NAMES = pc.source_names()
NN = len(NAMES)
NK = 4 + len(OTHER_TOKENS)
CTX = P("ctx", 0)
KIND = P("kind", None)
TWO = P("two", False)

def _parse(text_chunks, container, strict, scripting=False, tree="etree"):
    p = html5parser.HTMLParser(tree=tree, strict=strict)
    src = ChunkSrc(text_chunks)
    if container is None:
        p.parse(src, scripting=scripting)
    else:
        p.parseFragment(src, container=container, scripting=scripting)
    return p

def _doc(kind, ni, kind2, ni2):
    prefix, container = CONTEXTS[CTX]
    k = pick(NK, kind)
    text = render_token(k, NAMES[pick(NN, ni)] if k <= 3 else None)
    if TWO:
        k2 = pick(NK + 1, kind2)
        if k2 < NK:
            text += render_token(k2, NAMES[pick(NN, ni2)] if k2 <= 3 else None)
    return prefix, text, container

def strict_equiv(kind: int, ni: int, kind2: int, ni2: int, scripting: bool) -> bool:
    """
    pre: 0 <= kind < NK and 0 <= ni < NN and 0 <= kind2 <= NK and 0 <= ni2 < NN
    pre: KIND is None or kind == KIND
    pre: P("scripting", None) is None or scripting == P("scripting", None)
    pre: kind <= 3 or ni == 0
    pre: (TWO and kind2 <= 3) or ni2 == 0
    pre: TWO or kind2 == 0
    post: _
    """
    prefix, text, container = _doc(kind, ni, kind2, ni2)
    whole = prefix + text
    p = _parse([prefix, text], container, False, scripting)
    errs = p.errors
    nlines = whole.count("\n") + 1
    for (pos, code, datavars) in errs:
        if code not in E:
            return False                       # every recorded error has a message template ...
        msg = E[code] % datavars               # ... that formats with the supplied variables (raises otherwise)
        line, col = pos
        if not (1 <= line <= nlines and 0 <= col <= len(whole)):
            return False                       # ... and a position inside the input
    raised = None
    try:
        _parse([prefix, text], container, True, scripting)
    except html5parser.ParseError as e:        # any other exception type escapes -> counterexample
        raised = e
    if (raised is not None) != (len(errs) > 0):
        return False
    if raised is not None:
        pos, code, datavars = errs[0]
        if str(raised) != E[code] % datavars:
            return False                       # the error raised is the first one recorded
    return True

# ---------------------------------------------------------------- conforming documents record no errors
CONFORMING = [
    "<!DOCTYPE html><html><head><title>t</title></head><body><p>%s</p></body></html>",
    "<!DOCTYPE html><title>t</title><p>a%s<b>c</b> d<br><img src=x alt=y>",
    "<!DOCTYPE html><title>t</title><table><caption>c</caption><colgroup><col><tbody><tr><td>%s<th>h<tfoot><tr><td>f</table>",
    "<!DOCTYPE html><title>t</title><ul><li>%s<li>b</ul><dl><dt>a<dd>b</dl><select><optgroup label=l><option>o</select>",
    "<!DOCTYPE html><title>t</title><svg><linearGradient id=g></linearGradient><foreignObject><p>%s</p></foreignObject><circle r=1 /></svg>",
    "<!DOCTYPE html><title>t</title><math><mi>%s</mi><annotation-xml encoding=\"text/html\"><p>x</p></annotation-xml></math>",
    "<!DOCTYPE html><title>%s</title><style>a{}</style><script>1<2</script><textarea>&lt;</textarea><pre>\nx</pre>",
    "<!DOCTYPE html><html lang=en><head><meta charset=utf-8><title>t</title><link rel=stylesheet href=x></head><body><!--c--><h1>%s</h1><a href=\"?a=1&amp;b=2\">x</a></body></html>",
    "<!DOCTYPE html><title>t</title><ruby>%s<rt>a<rp>b</ruby><form><input name=a><button>b</button></form>",
    "<!DOCTYPE html><title>t</title><frameset><frame src=x><noframes>%s</noframes></frameset>",
    "<!DOCTYPE html><title>t</title><ul><li><p>%s</ul><ol><li><dl><dt>a<dd><p>b</dl></ol>",
    "<!DOCTYPE html><title>t</title><select><optgroup label=l><option>%s</select><table><tr><td><p>x<tr><th><p>y</table>",
    "<!DOCTYPE html><title>t</title><ruby>a<rt>%s<rp>(</ruby><dl><dt>t<dd><p>x</dl>",
    "<!DOCTYPE html><title>t</title><div><p>%s<div><li><p>x</div></div><button><p>y</button>",
]
NC = len(CONFORMING)

def _conforming_char(ch):
    """text a conforming document may contain literally: no markup-significant character, no control / surrogate / noncharacter"""
    if ch in "<&" or ch < " " or chr(0x7F) <= ch <= chr(0x9F) or chr(0xD800) <= ch <= chr(0xDFFF) or chr(0xFDD0) <= ch <= chr(0xFDEF):
        return False
    o = ord(ch)
    return (o % 0x10000) < 0xFFFE

def conforming_no_errors(di: int, t: str, scripting: bool) -> bool:
    """
    pre: 0 <= di < NC and len(t) <= P("tlen", 1) and (P("doc", None) is None or di == P("doc", None))
    pre: all(_conforming_char(ch) for ch in t)
    post: _
    """
    doc = CONFORMING[pick(NC, di)]
    a, b = doc.split("%s")
    from html5lib import _inputstream
    # the symbolic text is constrained to valid code points; the stream's invalid-code-point scan (a regex findall that
    # would realise the symbolic text) is switched off for this obligation only - C05 decides the error count
    _inputstream.HTMLUnicodeInputStream.characterErrorsUCS4 = lambda self, data: None
    p = html5parser.HTMLParser(strict=True)
    p.parse(ChunkSrc([a, t, b]), scripting=scripting)       # strict: raises ParseError at the first recorded error
    return p.errors == []

# ---------------------------------------------------------------- message table (concrete lemmas, reported as such)
def templates():
    """CONCRETE lemma (not a solver result): every template in constants.E formats with exactly the variables it names;
    every error code that occurs literally in the tokenizer / parser / input-stream source is a key of E and the
    variables supplied at that call site cover the variables the template names."""
    n = 0
    for code, tpl in E.items():
        keys = set(re.findall(r"%\((\w+)\)", tpl))
        try:
            tpl % dict((k, 1) for k in keys)     # an int formats under %s, %d and %x alike
        except Exception as e:
            return {"status": "sat", "model": {"code": code, "site": "constants.E"}, "detail": "template of %r does not format: %s" % (code, e), "queries": n + 1}
        n += 1
    for code, keys, site in _call_sites():
        n += 1
        if code not in E:
            return {"status": "sat", "model": {"code": code, "site": site}, "detail": "error code %r used at %s has no message in constants.E" % (code, site), "queries": n}
        need = set(re.findall(r"%\((\w+)\)", E[code]))
        if keys is not None and not need <= keys:
            return {"status": "sat", "model": {"code": code, "site": site}, "detail": "site %s supplies %s but the template needs %s" % (site, sorted(keys), sorted(need)), "queries": n}
    return {"status": "unsat", "queries": n, "witness_ok": n > 100, "witness_args": {"code": "eof-in-tag-name", "site": "witness"}}

def _call_sites():
    import html5lib._tokenizer as tk, html5lib._inputstream as ist
    out = []
    for mod in (html5parser, tk, ist):
        tree = ast.parse(inspect.getsource(mod))
        for node in ast.walk(tree):
            # parser: self.parser.parseError("code", {...})
            if isinstance(node, ast.Call) and isinstance(node.func, ast.Attribute) and node.func.attr == "parseError" and node.args:
                a0 = node.args[0]
                if isinstance(a0, ast.Constant) and isinstance(a0.value, str):
                    keys = set()
                    if len(node.args) > 1 and isinstance(node.args[1], ast.Dict):
                        keys = set(k.value for k in node.args[1].keys if isinstance(k, ast.Constant))
                    elif len(node.args) > 1:
                        keys = None
                    out.append((a0.value, keys, "%s:%d" % (mod.__name__, node.lineno)))
            # tokenizer: {"type": tokenTypes["ParseError"], "data": "code", "datavars": {...}}
            if isinstance(node, ast.Dict):
                d = dict((k.value, v) for k, v in zip(node.keys, node.values) if isinstance(k, ast.Constant))
                t = d.get("type")
                if t is not None and isinstance(t, ast.Subscript) and isinstance(t.slice, ast.Constant) and t.slice.value == "ParseError":
                    c = d.get("data")
                    if isinstance(c, ast.Constant):
                        keys = set()
                        dv = d.get("datavars")
                        if isinstance(dv, ast.Dict):
                            keys = set(k.value for k in dv.keys if isinstance(k, ast.Constant))
                        out.append((c.value, keys, "%s:%d" % (mod.__name__, node.lineno)))
            # input stream: self.errors.append("code")
            if isinstance(node, ast.Call) and isinstance(node.func, ast.Attribute) and node.func.attr == "append" and node.args and \
                    isinstance(node.func.value, ast.Attribute) and node.func.value.attr == "errors" and isinstance(node.args[0], ast.Constant) and isinstance(node.args[0].value, str):
                out.append((node.args[0].value, set(), "%s:%d" % (mod.__name__, node.lineno)))
    return out

def replay_template(code, site, **_):
    if site == "witness":
        return True
    r = templates()
    return r["status"] == "unsat"
