"""C17 direct z3 obligation: the live SPACES_REGEX denotes exactly one-or-more of the five HTML whitespace characters."""
import time, z3
from engine import re2z3
from html5lib.filters import whitespace

SPC = (9, 10, 12, 13, 32)
PRESERVE = ("pre", "textarea", "style", "script", "xmp", "iframe", "noembed", "noframes", "noscript")

def spaces_regex_class():
    t0 = time.time()
    items, rep = re2z3.single_class(whitespace.SPACES_REGEX)
    if rep is None or rep[0] != 1 or str(rep[1]) != "MAXREPEAT":
        return {"status": "sat", "model": {"c": 32, "rep": repr(rep)}, "detail": "SPACES_REGEX is not `[class]+`: %r" % (rep,), "queries": 1}
    c = z3.Int("c")
    s = z3.Solver()
    s.add(c >= 0, c <= 0x10FFFF)
    in_cls = re2z3.class_pred(items, c)
    ref = z3.Or([c == k for k in SPC])
    # reachability witness: the class is not empty
    s.push(); s.add(in_cls); w = s.check(); wm = s.model()[c].as_long() if str(w) == "sat" else None; s.pop()
    s.push(); s.add(in_cls != ref); r = s.check()
    out = {"queries": 3, "witness_ok": str(w) == "sat", "witness_args": {"c": wm}}
    if str(r) == "sat":
        out.update(status="sat", model={"c": s.model()[c].as_long()}, detail="character class of SPACES_REGEX differs from the five HTML whitespace characters")
    elif str(r) == "unsat":
        # the preserve set is a table: concrete lemma, reported as such
        if whitespace.Filter.spacePreserveElements != frozenset(PRESERVE):
            out.update(status="sat", model={"c": -1}, detail="spacePreserveElements != pre, textarea + raw-text elements: %r" % sorted(whitespace.Filter.spacePreserveElements))
        else:
            out.update(status="unsat")
    else:
        out.update(status="unknown", detail=str(s.reason_unknown()))
    s.pop()
    out["solver_s"] = round(time.time() - t0, 3)
    return out

def replay_regex(c, **_):
    if c < 0:
        return whitespace.Filter.spacePreserveElements == frozenset(PRESERVE)
    ch = chr(c)
    return (whitespace.SPACES_REGEX.fullmatch(ch) is not None) == (c in SPC) and \
           (whitespace.SPACES_REGEX.fullmatch(ch + ch) is not None) == (c in SPC) and whitespace.SPACES_REGEX.fullmatch("") is None
