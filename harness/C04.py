"""C04 — the parsed tree does not depend on the tree builder chosen.

Units (real code from /repo): treebuilders/etree.py and treebuilders/dom.py node primitives (appendChild, insertBefore,
insertText, removeChild, reparentChildren, cloneNode, hasContent, attributes) in lock-step under a SYMBOLIC operation
script; base.TreeBuilder steps and getDocument/getFragment through the real parser on catalogue contexts + tokens.
"""
from harness.common import P
from harness import parsecommon as pc
from harness.parsecommon import pick, CONTEXTS, render_token, OTHER_TOKENS, untraced, parse_norm, norm_et, norm_dom, builder, HTML_NS

pc.install_substitutions()
NAMES = pc.source_names()
NN = len(NAMES)
NK = 4 + len(OTHER_TOKENS)
CTX = P("ctx", 0)
SECOND = P("second", [])

def agree(kind: int, ni: int, k2: int, n2: int, k3: int, scripting: bool) -> bool:
    """
    pre: 0 <= kind < NK and 0 <= ni < NN and (kind <= 3 or ni == 0)
    pre: 0 <= k2 <= 2 and 0 <= n2 < max(1, len(SECOND)) and (len(SECOND) > 0 or (k2 == 0 and n2 == 0))
    pre: (k2 > 0) or n2 == 0
    pre: 0 <= k3 <= 2 and (len(SECOND) > 0 or k3 == 0)
    post: _
    """
    prefix, container = CONTEXTS[CTX]
    k = pick(NK, kind)
    text = render_token(k, NAMES[pick(NN, ni)] if k <= 3 else None)
    kk2 = pick(3, k2)
    if kk2 > 0:
        text += render_token(kk2 - 1, SECOND[pick(len(SECOND), n2)])
    text += ("", "x", "</table>y")[pick(3, k3)]
    scripting = bool(scripting)
    with untraced():
        ref, _ = parse_norm("etree-full", True, [prefix, text], container, scripting)
        for (b, ns) in (("dom", True), ("etree-full", False), ("dom", False)):
            t, _ = parse_norm(b, ns, [prefix, text], container, scripting)
            if t != ref:
                return False
        if container is None:
            # root-element return form of the etree builder agrees with the full tree on the html subtree
            t, _ = parse_norm("etree", True, [prefix, text], None, scripting)
            full_html = [c for c in ref[1] if c[0] == "elem"]
            if len(full_html) != 1 or t != full_html[0]:
                return False
    return True

# ---------------------------------------------------------------- primitives in lock-step
def _mk(kind):
    tb = builder(kind)(True)
    nodes = [tb.elementClass(n, HTML_NS) for n in ("a", "b", "c", "d", "e")[:NNODES]]
    nodes[0].appendChild(nodes[1])          # a > b
    return tb, nodes

def _apply(nodes, op, i, j, k):
    if op == 0:
        nodes[i].appendChild(nodes[j])
    elif op == 1:
        nodes[i].insertBefore(nodes[j], nodes[k])
    elif op == 2:
        nodes[i].insertText("t")
    elif op == 3:
        nodes[i].insertText("u", nodes[k])
    elif op == 4:
        nodes[i].reparentChildren(nodes[j])
    elif op == 5:
        nodes[i].removeChild(nodes[j])
    elif op == 6:
        nodes[i].attributes = {"x": "1"}
    elif op == 7:
        c = nodes[i].cloneNode()
        nodes[j].appendChild(c)

def _valid(state, op, i, j, k):
    """preconditions of the primitives as the tree-construction code calls them (parent/child relations tracked here)"""
    parent = state          # list: parent index or None
    def is_child(c, p):
        return parent[c] == p
    def ancestors(x):
        out = []
        while parent[x] is not None:
            x = parent[x]
            out.append(x)
        return out
    if op == 0:              # appendChild(i, j): j detached, no cycle
        return parent[j] is None and j != i and j not in ancestors(i) and i not in [] and j != 0
    if op == 1:              # insertBefore(i, j, ref k): j detached, k child of i
        return parent[j] is None and j != i and j != k and is_child(k, i) and j not in ancestors(i) and j != 0
    if op == 2:
        return True
    if op == 3:              # insertText before ref k: k child of i
        return is_child(k, i)
    if op == 4:              # reparentChildren(i -> j): the parser only ever moves children into a FRESH node (clone / fragment)
        return i != j and i not in ancestors(j) and not any(parent[c] == j for c in range(len(parent))) and j not in TEXT and parent[j] is None
    if op == 5:              # removeChild: the parser never removes an element that is followed by text in the same parent
        return is_child(j, i) and i not in TEXT
    if op == 6:
        return True
    if op == 7:
        return True
    return False

TEXT = set()
def _update(state, op, i, j, k):
    parent = state
    if op in (2, 3):
        TEXT.add(i)
    if op in (0, 1):
        parent[j] = i
    elif op == 4:
        for c in range(len(parent)):
            if parent[c] == i:
                parent[c] = j
    elif op == 5:
        parent[j] = None

NOPS = 8
NNODES = P("nodes", 5)
def lockstep(o1: int, i1: int, j1: int, k1: int, o2: int, i2: int, j2: int, k2: int, o3: int, i3: int, j3: int, k3: int, n: int) -> bool:
    """
    pre: 1 <= n <= P("nops", 3)
    pre: 0 <= o1 < NOPS and 0 <= o2 < NOPS and 0 <= o3 < NOPS
    pre: 0 <= i1 < NNODES and 0 <= j1 < NNODES and 0 <= k1 < NNODES and 0 <= i2 < NNODES and 0 <= j2 < NNODES and 0 <= k2 < NNODES and 0 <= i3 < NNODES and 0 <= j3 < NNODES and 0 <= k3 < NNODES
    pre: P("o1", None) is None or o1 == P("o1", None)
    pre: P("o2", None) is None or n < 2 or o2 == P("o2", None)
    pre: (o1 in (1, 3) or k1 == 0) and (o2 in (1, 3) or k2 == 0) and (o3 in (1, 3) or k3 == 0)
    pre: (o1 not in (2, 3, 6) or j1 == 0) and (o2 not in (2, 3, 6) or j2 == 0) and (o3 not in (2, 3, 6) or j3 == 0)
    pre: (n >= 2 or (o2 == 0 and i2 == 0 and j2 == 0 and k2 == 0)) and (n >= 3 or (o3 == 0 and i3 == 0 and j3 == 0 and k3 == 0))
    post: _
    """
    ops = [(pick(NOPS, o1), pick(NNODES, i1), pick(NNODES, j1), pick(NNODES, k1)), (pick(NOPS, o2), pick(NNODES, i2), pick(NNODES, j2), pick(NNODES, k2)), (pick(NOPS, o3), pick(NNODES, i3), pick(NNODES, j3), pick(NNODES, k3))][:pick(4, n)]
    with untraced():
        state = [None, 0, None, None, None][:NNODES]
        TEXT.clear()
        _, e = _mk("etree-full")
        _, d = _mk("dom")
        for (op, i, j, k) in ops:
            if op not in (1, 3):
                k = 0
            if op in (2, 3, 6):
                j = 0
            if not _valid(state, op, i, j, k):
                return True                 # not a call the tree-construction code can make: skip
            _apply(e, op, i, j, k)
            _apply(d, op, i, j, k)
            if op == 7:
                return [norm_et(x._element) for x in e] == [norm_dom(x.element) for x in d]
            _update(state, op, i, j, k)
            if [norm_et(x._element) for x in e] != [norm_dom(x.element) for x in d]:
                return False
            for idx in range(NNODES):
                # the algorithm branches on hasContent: it must agree between the back ends
                # (wrapper .parent pointers may legitimately be stale in the dom back end: its removeChild checks the real DOM parent)
                if bool(e[idx].hasContent()) != bool(d[idx].hasContent()):
                    return False
    return True
