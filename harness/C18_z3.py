"""C18 direct z3 obligation: the documented sort key (namespace or '', local name) is injective on attribute keys
whose namespace is None or a non-empty string (walker / lint contract), for unbounded strings."""
import time, z3

def spec_key_injective():
    t0 = time.time()
    na, nb = z3.Bools("none_a none_b")
    sa, sb, la, lb = z3.Strings("ns_a ns_b name_a name_b")
    E = z3.StringVal("")
    ka0 = z3.If(na, E, sa); kb0 = z3.If(nb, E, sb)
    s = z3.Solver()
    s.add(z3.Implies(z3.Not(na), sa != E), z3.Implies(z3.Not(nb), sb != E))       # contract
    s.add(z3.Implies(na, sa == E), z3.Implies(nb, sb == E))                         # canonical encoding of None
    s.push(); w = s.check(); s.pop()
    s.add(z3.Or(na != nb, sa != sb, la != lb))                                      # distinct keys
    s.add(ka0 == kb0, la == lb)                                                     # equal sort keys
    r = s.check()
    out = {"queries": 2, "witness_ok": str(w) == "sat", "witness_args": {"none_a": True, "ns_a": "", "name_a": "x", "none_b": False, "ns_b": "n", "name_b": "x"}, "solver_s": round(time.time() - t0, 3)}
    if str(r) == "unsat":
        out["status"] = "unsat"
    elif str(r) == "sat":
        m = s.model()
        out.update(status="sat", model={"none_a": bool(m.eval(na, True)), "ns_a": m.eval(sa, True).as_string(), "name_a": m.eval(la, True).as_string(),
                                        "none_b": bool(m.eval(nb, True)), "ns_b": m.eval(sb, True).as_string(), "name_b": m.eval(lb, True).as_string()})
    else:
        out["status"] = "unknown"
    return out

def replay_injective(none_a, ns_a, name_a, none_b, ns_b, name_b, **_):
    from html5lib.filters import alphabeticalattributes as aa
    a = (None if none_a else ns_a, name_a); b = (None if none_b else ns_b, name_b)
    return a == b or aa._attr_key((a, "")) != aa._attr_key((b, ""))
