"""C14 table lemmas (concrete, reported as such) + a z3 query on the numeric replacement table."""
import time, z3, html
from html.entities import html5
from html5lib.constants import entities, replacementCharacters
from refs import r10_charref as R10

def tables():
    t0 = time.time()
    n = 0
    # named table == Python's independent copy of the standard's table
    if dict(entities) != dict(html5):
        diff = sorted(set(entities.items()) ^ set(html5.items()))[:3]
        return {"status": "sat", "model": {"what": "entities", "key": diff[0][0]}, "detail": "constants.entities differs from html.entities.html5: %r" % (diff,), "queries": 1}
    n += len(entities)
    # numeric replacement table: z3 — for every n, (n in replacementCharacters -> value) agrees with the standard's
    # C1 table + NUL rule as far as the final character is concerned
    c = z3.Int("n")
    s = z3.Solver()
    s.add(c >= 0, c <= 0x10FFFF)
    impl = z3.IntVal(-1)
    for k, v in replacementCharacters.items():
        if len(v) != 1:
            return {"status": "sat", "model": {"what": "replacementCharacters", "key": k}, "detail": "multi-char replacement", "queries": 1}
        impl = z3.If(c == k, ord(v), impl)
    ref = z3.IntVal(-1)
    for k, v in R10.C1_TABLE.items():
        ref = z3.If(c == k, ord(v), ref)
    ref = z3.If(c == 0, 0xFFFD, ref)
    # html5lib's table may additionally list identity rows / U+000D etc.: compare the resulting character
    final_impl = z3.If(impl >= 0, impl, c)
    final_ref = z3.If(ref >= 0, ref, c)
    s.push(); s.add(impl >= 0); w = s.check(); wa = s.model()[c].as_long() if str(w) == "sat" else None; s.pop()
    s.add(final_impl != final_ref, z3.Not(z3.And(c >= 0xD800, c <= 0xDFFF)))
    r = s.check()
    out = {"queries": 2, "rows_compared": n, "witness_ok": str(w) == "sat", "witness_args": {"what": "witness", "key": wa}, "solver_s": round(time.time() - t0, 3)}
    if str(r) == "sat":
        k = s.model()[c].as_long()
        out.update(status="sat", model={"what": "replacementCharacters", "key": k}, detail="numeric replacement for %#x differs from the standard" % k)
    elif str(r) == "unsat":
        out["status"] = "unsat"
    else:
        out["status"] = "unknown"
    return out

def replay_tables(what, key, **_):
    if what == "witness":
        return True
    if what == "entities":
        return entities.get(key) == html5.get(key)
    v = replacementCharacters.get(key, chr(key))
    return v == R10.numeric_value_to_string(key)

def digit_limit():
    """Concrete boundary lemma (NOT a solver result): CPython >= 3.11 limits int(str) to
    sys.get_int_max_str_digits() decimal digits; a numeric reference just beyond the limit must still decode
    to U+FFFD (value beyond U+10FFFF) and must not raise."""
    import sys
    t0 = time.time()
    lim = sys.get_int_max_str_digits() if hasattr(sys, "get_int_max_str_digits") else 0
    out = {"queries": 2, "witness_ok": True, "witness_args": {"digits": 5, "hexa": False}, "limit": lim, "solver_s": 0.0}
    for digits in ([lim, lim + 1] if lim else [5000]):
        for hexa in (False, True):
            if not replay_digit_limit(digits, hexa):
                out.update(status="sat", model={"digits": digits, "hexa": hexa}, detail="numeric reference with %d digits" % digits)
                return out
    # C-level limits of chr(): values at the int / Py_ssize_t boundaries must decode to U+FFFD without raising
    for v in (2 ** 31 - 1, 2 ** 31, 2 ** 32, 2 ** 63 - 1, 2 ** 63, 2 ** 64):
        if not replay_digit_limit(0, True, value=v):
            out.update(status="sat", model={"digits": 0, "hexa": True, "value": v}, detail="numeric reference with value %d" % v)
            return out
    out["queries"] = 10
    out["status"] = "unsat"
    out["solver_s"] = round(time.time() - t0, 3)
    return out

def replay_digit_limit(digits, hexa, value=None, **_):
    if value is not None:
        from harness.tokcommon import mk_tokenizer
        t = mk_tokenizer(("%x" % value) + ";")
        try:
            return t.consumeNumberEntity(True) == "\ufffd"
        except Exception as e:
            print("consumeNumberEntity raised %s: %s" % (type(e).__name__, str(e)[:100]))
            return False
    from harness.tokcommon import mk_tokenizer
    t = mk_tokenizer("9" * digits + ";")
    try:
        out = t.consumeNumberEntity(hexa)
    except Exception as e:
        print("consumeNumberEntity raised %s: %s" % (type(e).__name__, str(e)[:100]))
        return False
    return out == "�" if digits > 7 else True
