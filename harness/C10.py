"""C10 — sanitized markup stays safe when it is parsed again.

Units (real code from /repo), end to end: parseFragment -> tree walker -> HTMLSerializer(sanitize=True) [sanitizer filter
before optional-tag omission] -> parse again (fragment in the same or another container, or document; scripting on/off).
The input is composed by SYMBOLIC INDEX from mutation-XSS shaped pieces (container, two context openers, a payload),
all serializer options that touch the path are symbolic; the run is concrete after the fork.  The re-parsed tree must
satisfy the sanitizer's own allow-lists (C09's predicate): composition of C09 (what the filter lets through), C08 (how it
is written) and the parser's context switches.
"""
import warnings
warnings.simplefilter("ignore")
from harness.common import P
from harness.parsecommon import pick, untraced
from harness.C09 import r6_scheme, _has_url
from html5lib.filters import sanitizer
from html5lib import serializer, treewalkers, constants
from html5lib.constants import namespaces
import html5lib

HTML = namespaces["html"]
CONTAINERS = ["div", "body", "td", "select", "svg", "math", "title", "textarea", "table", "p"]
OPEN = ["", "<svg>", "<math><mtext>", "<noscript>", "<style>", "<table>", "<textarea>", "<math><annotation-xml encoding=text/html>", "<math>", "<svg><title>", "<svg><desc>", "<math><mi>", "<math><annotation-xml>", "<table><tr><td>", "<select>", "<title>",
        "<svg></p>", "<math></br>", "<script>", "<p>", "<a href=x>", "<svg><foreignObject>", "<xmp>", "<plaintext>", "<template>", "<iframe>", "<noembed>", "<form>", "<b><i>", "<ul><li>", "<pre>", "<svg><style>", "<math><style>", "<svg><script>"]
PAYLOAD = [
    "<img src=x onerror=alert(1)>", "</style><img src=x onerror=a>", "</script><img src=x onerror=a>", "</title><img src=x onerror=a>", "</textarea><img src=x onerror=a>", "<!--><img onerror=a>-->", "--><img onerror=a>",
    "<a href=\"javascript:alert(1)\">x</a>", "<a href=\"jav&#x09;ascript:alert(1)\">x</a>", "<a href=\" &#14; javascript:alert(1)\">x</a>", "<p title=\"</noscript><img src=x onerror=a>\">", "<p title=\"</title><img onerror=a>\">",
    "<p title=\"--><img onerror=a>\">", "<p title=\"</style><img onerror=a>\">", "<p id=\"'><img onerror=a>\" class='\"><img onerror=a>'>", "<style><img onerror=a></style>", "</p><img onerror=a>", "<![CDATA[<img onerror=a>]]>",
    "</svg><img onerror=a>", "</math><img onerror=a>", "<b style=\"background:url(javascript:a)\">x", "<b style=\"color: URL(1)\">x", "<script>alert(1)</script>", "&lt;img onerror=a&gt;", "<iframe src=javascript:a>", "<a xlink:href=\"javascript:a\">x</a>",
    "<svg><a xlink:href=\"javascript:a\">x</a></svg>", "<math href=\"javascript:a\">x</math>", "<img src=\"data:text/html,x\">", "<img src=\"data:image/png,x\">", "<b id=\"x", "x<", "<textarea></textarea><img onerror=a>", "<mglyph><style><img onerror=a>",
    "<table><style><img onerror=a>", "<select><style><img onerror=a>", "<p>a<table>b<td>c", "<br onclick=a>", "<font color=red size=`x`onmouseover=a>", "<a href=x`y title=`z>", "<p title=a/>", "\x00<img\x00onerror=a>",
    "<a href=\"javascript&amp;colon;alert(1)\">x</a>", "<a href=\"&amp;#106;avascript:alert(1)\">x</a>", "<p title=\"&amp;lt;img/onerror=a&amp;gt;\" id=a&amp;amp;lt;b>", "<a href=\"javascript:1\" ping=\"javascript:2\">x</a>",
    "<title><a title=\"</title><img src=x onerror=a>\">", "<desc><a title=\"</desc><img src=x onerror=a>\">", "<style><a title=\"</style><img src=x onerror=a>\">", "</p><title><a title=\"</title><img src=x onerror=a>\">",
    "</br><textarea><a title=\"</textarea><img src=x onerror=a>\">",
    "<img src=\"javascript:1\" lowsrc=\"vbscript:2\" longdesc=\"data:text/html,3\" usemap=\"javascript:4\">", "<a href=\"&amp;Tab;javascript&amp;NewLine;:a\">x</a>",
]
NC, NO, NP = len(CONTAINERS), len(OPEN), len(PAYLOAD)
O1 = P("o1", None)

ALLOWED_NAMES_ANY_NS = frozenset(n for _, n in sanitizer.allowed_elements)

def _safe(node, doc_mode, problems):
    """the sanitizer's allow-lists as a predicate over a DOM tree"""
    for c in node.childNodes:
        if c.nodeType == c.COMMENT_NODE:
            problems.append("comment")
        elif c.nodeType == c.ELEMENT_NODE:
            ns = c.namespaceURI or HTML
            name = c.nodeName
            if (ns, name) not in sanitizer.allowed_elements and not (doc_mode and ns == HTML and name in ("html", "head", "body")):
                if name in ALLOWED_NAMES_ANY_NS:
                    problems.append("nsconfusion %s" % name)     # allow-listed under another namespace than the one it re-parsed into
                else:
                    problems.append("element %s" % name)
            for i in range(c.attributes.length):
                a = c.attributes.item(i)
                key = (a.namespaceURI, a.localName) if a.namespaceURI else (None, a.name)
                if key not in sanitizer.allowed_attributes:
                    problems.append("attribute %s on %s" % (a.name, name))
                if key in sanitizer.attr_val_is_uri:
                    sch = r6_scheme(a.value)
                    if sch is not None and sch not in sanitizer.allowed_protocols:
                        problems.append("scheme %s in %s" % (sch, a.name))
                    if sch == "data":
                        nv = "".join(ch for ch in a.value if ch not in "\t\n\r")
                        ctype = nv.split(":", 1)[1].split(",")[0].split(";")[0].strip().lower()
                        if ctype not in sanitizer.allowed_content_types and "/" in ctype:
                            problems.append("data content type %s" % ctype)
                if key == (None, "style") and _has_url(a.value):
                    problems.append("url() in style")
            _safe(c, doc_mode, problems)
    return problems

from engine import findings
KF_NS = findings.active("C10-namespace-confusion-after-escaped-integration-point")

def sig_nsconfusion(ci, o1, o2, pi, omit, qmode, scr1, scr2, remode, walker_dom, **_):
    """the ONLY problems of the re-parsed tree are names that are allow-listed under another namespace"""
    probs = _problems(ci, o1, o2, pi, omit, qmode, scr1, scr2, remode, walker_dom)
    return len(probs) > 0 and all(p.startswith("nsconfusion ") for p in probs)

def roundtrip(ci: int, o1: int, o2: int, pi: int, omit: bool, qmode: int, scr1: bool, scr2: bool, remode: int, walker_dom: bool) -> bool:
    """
    pre: 0 <= ci < NC and 0 <= o1 < NO and 0 <= o2 < NO and 0 <= pi < NP and 0 <= qmode <= 2 and 0 <= remode <= 2
    pre: O1 is None or o1 == O1
    pre: o2 < P("o2max", NO) and qmode != 1 and remode != P("skipmode", 9) and (P("scr1", None) is None or scr1 == P("scr1", None)) and (P("wdom", None) is None or walker_dom == P("wdom", None))
    pre: P("ci", None) is None or ci == P("ci", None)
    post: _
    """
    cont = CONTAINERS[pick(NC, ci)]
    text = OPEN[pick(NO, o1)] + OPEN[pick(NO, o2)] + PAYLOAD[pick(NP, pi)]
    qm = ("legacy", "spec", "always")[pick(3, qmode)]
    rm = pick(3, remode)
    omit, scr1, scr2, walker_dom = bool(omit), bool(scr1), bool(scr2), bool(walker_dom)
    with untraced():
        if KF_BREAKOUT and _misplaced_html(html5lib.parseFragment(text, container=cont, treebuilder="dom", scripting=scr1)):
            return True            # listed known finding: the tree itself cannot be written in HTML syntax
        problems = _pipeline(cont, text, qm, rm, omit, scr1, scr2, walker_dom)
        if KF_NS:
            problems = [p for p in problems if not p.startswith("nsconfusion ")]
        return problems == []

def _problems(ci, o1, o2, pi, omit, qmode, scr1, scr2, remode, walker_dom):
    return _pipeline(CONTAINERS[ci], OPEN[o1] + OPEN[o2] + PAYLOAD[pi], ("legacy", "spec", "always")[qmode], remode, bool(omit), bool(scr1), bool(scr2), bool(walker_dom))

SVGNS, MMLNS = namespaces["svg"], namespaces["mathml"]
def _misplaced_html(node, parent_foreign=False):
    """an HTML-namespace element sits directly inside an SVG / MathML element that is NOT an integration point (the first parse
    puts <p> / <br> there for a stray </p> / </br> inside foreign content); HTML syntax cannot express that position"""
    for c in node.childNodes:
        if c.nodeType != c.ELEMENT_NODE:
            continue
        ns = c.namespaceURI or HTML
        if ns == HTML and parent_foreign:
            return True
        foreign = ns in (SVGNS, MMLNS)
        integration = (ns == SVGNS and c.nodeName in ("foreignObject", "desc", "title")) or (ns == MMLNS and c.nodeName in ("mi", "mo", "mn", "ms", "mtext")) or \
            (ns == MMLNS and c.nodeName == "annotation-xml" and (c.getAttribute("encoding") or "").lower() in ("text/html", "application/xhtml+xml"))
        if _misplaced_html(c, foreign and not integration):
            return True
    return False

KF_BREAKOUT = findings.active("C10-html-element-inside-foreign-content")
def sig_breakout(ci, o1, o2, pi, omit, qmode, scr1, scr2, remode, walker_dom, **_):
    t = html5lib.parseFragment(OPEN[o1] + OPEN[o2] + PAYLOAD[pi], container=CONTAINERS[ci], treebuilder="dom", scripting=bool(scr1))
    return _misplaced_html(t)

def _pipeline(cont, text, qm, rm, omit, scr1, scr2, walker_dom):
    if True:
        kind = "dom" if walker_dom else "etree"
        tree = html5lib.parseFragment(text, container=cont, treebuilder=kind, scripting=scr1)
        s = serializer.HTMLSerializer(sanitize=True, omit_optional_tags=omit, quote_attr_values=qm)
        out = s.render(treewalkers.getTreeWalker(kind)(tree))
        if rm == 0:
            t2 = html5lib.parseFragment(out, container=cont, treebuilder="dom", scripting=scr2)
        elif rm == 1:
            t2 = html5lib.parseFragment(out, container="div", treebuilder="dom", scripting=scr2)
        else:
            t2 = html5lib.parse(out, treebuilder="dom", scripting=scr2)
        return _safe(t2, rm == 2, [])

def context_agreement():
    """CONCRETE lemma over the allow-list (finite table, not a solver result): for no allow-listed element do the serializer's
    raw-text decision (bare name in rcdataElements) and the parser's tokenizer switch (namespace- and scripting-aware) disagree"""
    from harness.C08 import parser_text_state
    n = 0
    for (ns, name) in sorted(sanitizer.allowed_elements):
        for scripting in (False, True):
            n += 1
            ser_raw = name in constants.rcdataElements
            par_raw = parser_text_state(name, ns, scripting) in ("rawtext", "script_data", "plaintext")
            if ser_raw != par_raw:
                return {"status": "sat", "model": {"ns": ns, "name": name, "scripting": scripting}, "detail": "allow-listed element %s is written %s but parsed %s" % (name, "raw" if ser_raw else "escaped", "raw" if par_raw else "as data"), "queries": n}
            if parser_text_state(name, ns, scripting) == "rcdata" and name in constants.rcdataElements:
                return {"status": "sat", "model": {"ns": ns, "name": name, "scripting": scripting}, "detail": "RCDATA element written raw", "queries": n}
    return {"status": "unsat", "queries": n, "witness_ok": n > 100, "witness_args": {"ns": HTML, "name": "p", "scripting": False}}

def replay_context(ns, name, scripting, **_):
    from harness.C08 import parser_text_state
    return (name in constants.rcdataElements) == (parser_text_state(name, ns, scripting) in ("rawtext", "script_data", "plaintext"))
