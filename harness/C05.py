"""C05 — the result does not depend on how the input characters are delivered.

Units executed symbolically (real code from /repo): HTMLUnicodeInputStream.readChunk / char / charsUntil / unget /
position / _position / characterErrorsUCS4 over a pure-Python source with SYMBOLIC read sizes and a symbolic internal
chunk size; BufferedStream.read/seek/tell.
Reference R2: the ideal stream = newline-normalised string with an index.
"""
from html5lib._inputstream import HTMLUnicodeInputStream, BufferedStream, invalid_unicode_re
from harness.common import P
from engine import findings

class Src:
    """text source whose i-th read returns at most sizes[i] characters (then everything that is asked for)"""
    def __init__(self, s, sizes):
        self.s = s
        self.pos = 0
        self.sizes = sizes
        self.i = 0
    def read(self, n=-1):
        if n == 0:
            return ""
        k = self.sizes[self.i] if self.i < len(self.sizes) else len(self.s)
        self.i += 1
        if n is not None and n >= 0 and k > n:
            k = n
        r = self.s[self.pos:self.pos + k]
        self.pos += len(r)
        return r

def r2_normalise(s):
    out = ""
    i = 0
    while i < len(s):
        c = s[i]
        if c == "\r":
            out += "\n"
            if i + 1 < len(s) and s[i + 1] == "\n":
                i += 1
        else:
            out += c
        i += 1
    return out

def r2_position(n, i):
    line = 1
    col = 0
    for ch in n[:i]:
        if ch == "\n":
            line += 1
            col = 0
        else:
            col += 1
    return (line, col)

LMAX = P("len", 3)
KF_PREPEND = findings.active("C05-unget-prepend-column")

def _pick(n, i):
    for k in range(n):
        if i == k:
            return k
    return None

# ---------------------------------------------------------------- (i) delivered characters, all Unicode
def deliver(s: str, a: int, b: int, c: int, cs: int) -> bool:
    """
    pre: len(s) <= LMAX
    pre: 1 <= a <= P("rmax", 2) and 1 <= b <= P("rmax", 2) and 1 <= c <= P("rmax", 2) and 1 <= cs <= P("csmax", 2)
    pre: P("cs", None) is None or cs == P("cs", None)
    pre: P("a", None) is None or a == P("a", None)
    pre: not (findings.active("C05-single-char-read-cr") and sig_single_cr(s, [a, b, c], cs))
    post: _
    """
    st = HTMLUnicodeInputStream(Src(s, [a, b, c]))
    st._defaultChunkSize = cs
    st.reportCharacterErrors = None           # error counting is obligation (ii)
    st._position = lambda offset: (0, 0)      # positions are obligation (ii) (str.count/rfind realise symbolic text)
    out = ""
    while True:
        ch = st.char()
        if ch is None:
            break
        out += ch
        if len(out) > len(s) + 1:
            return False
    return out == r2_normalise(s)

def sig_single_cr(s, sizes, cs, **_):
    """some read returns exactly one character, that character is CR (or a lead surrogate) and more input follows"""
    pos = 0
    for k in list(sizes) + [len(s)] * 4:
        k = min(k, cs)
        piece = s[pos:pos + k]
        if len(piece) == 1 and pos + 1 < len(s) and (piece == "\r" or "\ud800" <= piece <= "\udbff"):
            return True
        pos += len(piece)
        if pos >= len(s):
            break
    return False

# ---------------------------------------------------------------- (ii) positions, error counts, unget / charsUntil scripts
ALPHA = P("alpha", ["a", "\r", "\n", "\ud83d", "<", "\x01"])
NA = len(ALPHA)
SETS = [frozenset("<&"), frozenset("a<")]
FIRST = P("first", None)

def _mk(k, i0, i1, i2, i3):
    return "".join(ALPHA[_pick(NA, i)] for i in (i0, i1, i2, i3)[:_pick(5, k)])

def script(k: int, i0: int, i1: int, i2: int, i3: int, a: int, b: int, cs: int, nread: int, nunget: int, op: int) -> bool:
    """
    pre: 0 <= k <= LMAX and 0 <= i0 < NA and 0 <= i1 < NA and 0 <= i2 < NA and 0 <= i3 < NA
    pre: FIRST is None or k == 0 or i0 == FIRST
    pre: 1 <= a <= P("rmax", 2) and 1 <= b <= P("rmax", 2) and 1 <= cs <= P("csmax", 2)
    pre: 0 <= nread <= k and 0 <= nunget <= 2 and nunget <= nread and 0 <= op <= 4
    pre: P("op", None) is None or op == P("op", None)
    pre: (a <= cs and b <= cs) or (a == 1 and b == 1)
    post: _
    """
    return _script(k, i0, i1, i2, i3, a, b, cs, nread, nunget, op, True)

def _script(k, i0, i1, i2, i3, a, b, cs, nread, nunget, op, check_pos):
    s = _mk(k, i0, i1, i2, i3)
    a, b, cs = _pick(4, a), _pick(4, b), _pick(4, cs)
    nread, nunget, op = _pick(6, nread), _pick(3, nunget), _pick(5, op)
    n = r2_normalise(s)
    st = HTMLUnicodeInputStream(Src(s, [a, b]))
    st._defaultChunkSize = cs
    i = 0
    got = []
    # phase 1: read nread characters one by one (positions checked after each)
    for _ in range(nread):
        ch = st.char()
        if i < len(n):
            if ch != n[i]:
                return False
            i += 1
            got.append(ch)
        elif ch is not None:
            return False
        else:
            got.append(None)
        if check_pos and st.position() != r2_position(n, i):
            return False
    # phase 2: push back the last nunget characters, last first (the tokenizer's look-ahead pattern)
    tainted = not check_pos
    for _ in range(nunget):
        ch = got.pop()
        if ch is not None and st.chunkOffset == 0 and KF_PREPEND:
            # known finding C05-unget-prepend-column: from here on only the CHARACTERS are compared
            tainted = True
        st.unget(ch)
        if ch is not None:
            i -= 1
        if not tainted and st.position() != r2_position(n, i):
            return False
    # phase 3: one scanning operation
    if op in (1, 2, 3, 4):
        cset = SETS[(op - 1) % 2]
        opposite = op >= 3
        r = st.charsUntil(cset, opposite)
        j = i
        while j < len(n) and ((n[j] in cset) == opposite):
            j += 1
        if r != n[i:j]:
            return False
        i = j
        if not tainted and st.position() != r2_position(n, i):
            return False
    # phase 4: read to the end
    while True:
        ch = st.char()
        if ch is None:
            break
        if i >= len(n) or ch != n[i]:
            return False
        i += 1
        if not tainted and st.position() != r2_position(n, i):
            return False
    if i != len(n):
        return False
    # invalid-code-point errors: as many as the contiguous text contains, whatever the segmentation
    return len(st.errors) == len(invalid_unicode_re.findall(s)) and all(e == "invalid-codepoint" for e in st.errors)

# ---------------------------------------------------------------- BufferedStream (pure Python part of the byte path)
class BSrc:
    def __init__(self, data, sizes):
        self.data, self.pos, self.sizes, self.i = data, 0, sizes, 0
    def read(self, n):
        k = self.sizes[self.i] if self.i < len(self.sizes) else n
        self.i += 1
        k = min(k, n)
        r = self.data[self.pos:self.pos + k]
        self.pos += len(r)
        return r

def buffered(n: int, a: int, b: int, r1: int, r2: int, seekto: int, r3: int) -> bool:
    """
    pre: 0 <= n <= 4 and 1 <= a <= 2 and 1 <= b <= 2
    pre: 1 <= r1 <= 3 and 1 <= r2 <= 2 and 1 <= r3 <= 4 and 0 <= seekto <= 4
    pre: P("n", None) is None or n == P("n", None)
    post: _
    """
    n, a, b, r1, r2, seekto, r3 = _pick(6, n), _pick(4, a), _pick(4, b), _pick(4, r1), _pick(4, r2), _pick(7, seekto), _pick(7, r3)
    data = bytes(range(65, 65 + n))
    bs = BufferedStream(BSrc(data, [a, b]))
    x1 = bs.read(r1)
    x2 = bs.read(r2)
    have = len(x1) + len(x2)
    if x1 + x2 != data[:have] or bs.tell() != have:
        return False
    if seekto > have:
        return True
    bs.seek(seekto)
    if bs.tell() != seekto:
        return False
    x3 = bs.read(r3)
    # a read after seeking back returns the same bytes again (then continues from the source)
    return data[seekto:].startswith(x3) and (len(x3) >= 1 or seekto >= len(data) or r3 == 0) and bs.tell() == seekto + len(x3)


def sig_unget_prepend(k, i0, i1, i2, i3, a, b, cs, nread, nunget, op, **_):
    """the script pushes a character back while the read offset is at the start of the chunk (prepend path of unget)
    AND everything except the reported positions is still right (characters, charsUntil results, error count)"""
    s = _mk(k, i0, i1, i2, i3)
    st = HTMLUnicodeInputStream(Src(s, [a, b]))
    st._defaultChunkSize = cs
    got = [st.char() for _ in range(nread)]
    prepend = False
    for _ in range(nunget):
        ch = got.pop()
        if ch is not None and st.chunkOffset == 0:
            prepend = True
        st.unget(ch)
    return prepend and _script(k, i0, i1, i2, i3, a, b, cs, nread, nunget, op, False)
