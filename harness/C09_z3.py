"""C09 direct z3 obligations on the live regexes of the sanitizer (read from the AST of the methods at check time):
 (1) a style string that contains no match of the url()-removal regex and passes both gauntlet regexes cannot contain
     'url' WS* '(' in any letter case  (regular-language emptiness on UNBOUNDED strings);
 (2) the character class stripped from URI values before the scheme test covers TAB, LF, CR, every C0 control and space
     (what a browser ignores), and none of the scheme characters."""
import ast, inspect, re, time, z3
from engine import re2z3
from html5lib.filters import sanitizer

def _regex_literals(fn):
    src = inspect.getsource(fn)
    tree = ast.parse(src.lstrip() if not src.startswith("def") else src) if False else ast.parse(__import__("textwrap").dedent(src))
    out = []
    for node in ast.walk(tree):
        if isinstance(node, ast.Call) and isinstance(node.func, ast.Attribute) and node.func.attr in ("compile", "match", "sub", "search", "findall") and node.args:
            a = node.args[0]
            if isinstance(a, ast.Constant) and isinstance(a.value, str):
                flags = 0
                for extra in node.args[1:] + [k.value for k in node.keywords]:
                    if isinstance(extra, ast.Attribute) and extra.attr in ("I", "IGNORECASE"):
                        flags |= re.I
                out.append((node.func.attr, a.value, flags, node.lineno))
    out.sort(key=lambda x: x[3])
    return out

def css_url_emptiness():
    t0 = time.time()
    lits = _regex_literals(sanitizer.Filter.sanitize_css)
    removal = [l for l in lits if l[0] == "compile"]
    gaunt = [l for l in lits if l[0] == "match" and l[1].startswith("^")][:2]
    if len(removal) != 1 or len(gaunt) != 2:
        return {"status": "unknown", "detail": "sanitize_css no longer has the expected regex structure: %r" % (lits,), "queries": 1}
    # alphabet compression: characters that none of the three regexes (nor the url( probe) can tell apart are merged
    pats = [(removal[0][1], removal[0][2]), (gaunt[0][1], gaunt[0][2]), (gaunt[1][1], gaunt[1][2])]
    extra = [[(ord(c), ord(c))] for c in "urlURL( \t\n\r\x0ccolor:;"]
    rep, reps = re2z3.minterm_representatives(pats, extra)
    rem, trr, info_r = re2z3.to_re_compressed(removal[0][1], removal[0][2], reps)
    g1, tr1, i1 = re2z3.to_re_compressed(gaunt[0][1], gaunt[0][2], reps, allow_inner_end=True)
    g2, tr2, i2 = re2z3.to_re_compressed(gaunt[1][1], gaunt[1][2], reps, allow_inner_end=True)
    anyc = trr.anychar()
    def contains(r):
        return z3.Concat(z3.Star(anyc), r, z3.Star(anyc))
    s = z3.String("s")
    sol = z3.Solver()
    sol.set("timeout", 150000)
    ws = z3.Union(*[z3.Re(z3.StringVal(c)) for c in " \t\n\r\x0c"])
    url = z3.Concat(z3.Union(z3.Re("u"), z3.Re("U")), z3.Union(z3.Re("r"), z3.Re("R")), z3.Union(z3.Re("l"), z3.Re("L")), z3.Star(ws), z3.Re("("))
    sol.add(z3.InRe(s, z3.Star(anyc)))                                        # strings over the compressed alphabet
    sol.add(z3.InRe(s, g1), z3.InRe(s, g2))                                   # passes both gauntlets
    # one declaration of an allowed property, so that what survives the regexes is what sanitize_css returns
    sol.add(z3.PrefixOf(z3.StringVal("color:"), s), z3.Not(z3.Contains(z3.SubString(s, 6, z3.Length(s)), z3.StringVal(":"))), z3.Not(z3.Contains(s, z3.StringVal(";"))))
    sol.add(z3.Not(z3.InRe(s, contains(rem))))                                # nothing left for the removal regex to remove
    sol.push(); w = sol.check(); wit = sol.model()[s].as_string() if str(w) == "sat" else None; sol.pop()
    sol.add(z3.InRe(s, contains(url)))
    r = sol.check()
    out = {"queries": 2, "solver_s": round(time.time() - t0, 2), "witness_ok": str(w) == "sat", "witness_args": {"style": wit}, "alphabet_classes": len(reps),
           "overapprox": bool(i1["overapprox"] or i2["overapprox"]), "clipped": bool(info_r["clipped"] or i1["clipped"] or i2["clipped"])}
    if str(r) == "sat":
        out.update(status="sat", model={"style": _unz3(sol.model()[s].as_string())}, detail="a url( survives the removal regex and both gauntlets")
    elif str(r) == "unsat":
        out["status"] = "unsat"
    else:
        out.update(status="unknown", detail=str(sol.reason_unknown()))
    return out

def _unz3(t):
    import re as _re
    return _re.sub(r"\\u\{([0-9a-fA-F]+)\}", lambda m: chr(int(m.group(1), 16)), t)

def replay_css(style, **_):
    import warnings; warnings.simplefilter("ignore")
    from harness.C09 import _has_url
    out = sanitizer.Filter([]).sanitize_css(style)
    return not _has_url(out)

def uri_strip_class():
    t0 = time.time()
    lits = [l for l in _regex_literals(sanitizer.Filter.allowed_token) if l[0] == "sub" and l[1].startswith("[")]
    if not lits:
        return {"status": "unknown", "detail": "no re.sub literal in allowed_token", "queries": 1}
    items, rep = re2z3.single_class(lits[0][1])
    c = z3.Int("c")
    s = z3.Solver()
    s.add(c >= 0, c <= 0x10FFFF)
    stripped = re2z3.class_pred(items, c)
    ignorable = z3.Or(c <= 0x20)                                  # C0 controls and space (incl. TAB, LF, CR)
    schemech = z3.Or(z3.And(c >= 0x30, c <= 0x39), z3.And(c >= 0x41, c <= 0x5A), z3.And(c >= 0x61, c <= 0x7A), c == 0x2B, c == 0x2D, c == 0x2E, c == 0x3A)
    s.push(); s.add(stripped); w = s.check(); wm = s.model()[c].as_long() if str(w) == "sat" else None; s.pop()
    for nm, q in (("ignorable-not-stripped", z3.And(ignorable, z3.Not(stripped))), ("scheme-char-stripped", z3.And(schemech, stripped))):
        s.push(); s.add(q); r = s.check()
        if str(r) == "sat":
            k = s.model()[c].as_long(); s.pop()
            return {"status": "sat", "model": {"which": nm, "c": k}, "detail": "%s: U+%04X" % (nm, k), "queries": 3}
        s.pop()
    return {"status": "unsat", "queries": 3, "witness_ok": str(w) == "sat", "witness_args": {"which": "witness", "c": wm}, "solver_s": round(time.time() - t0, 3)}

def replay_strip(which, c, **_):
    import warnings; warnings.simplefilter("ignore")
    if which == "witness":
        return True
    ch = chr(c)
    f = sanitizer.Filter([])
    tok = {"type": "StartTag", "name": "a", "namespace": "http://www.w3.org/1999/xhtml", "data": {(None, "href"): "java" + ch + "script:x"}}
    out = f.sanitize_token(tok)
    if which == "ignorable-not-stripped":
        return (None, "href") not in out["data"]
    return True
