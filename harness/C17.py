"""C17 — the whitespace filter changes nothing but whitespace.

Units executed symbolically: whitespace.Filter.__iter__ and whitespace.collapse_spaces (real code from /repo).
"""
from html5lib.filters import whitespace
from html5lib.constants import rcdataElements
from harness.common import P

NMAX = P("n", 3)
DMAX = P("d", 2)
SP = "\t\n\x0c\r "
PRESERVE = ("pre", "textarea", "style", "script", "xmp", "iframe", "noembed", "noframes", "noscript")

# ---------------------------------------------------------------- R8: reference
def r8_collapse(text):
    out = ""
    in_run = False
    for ch in text:
        if ch in SP:
            if not in_run:
                out += " "
                in_run = True
        else:
            out += ch
            in_run = False
    return out

def r8_filter(tokens):
    """tokens: list of (type, name, data). Explicit stack of open element names; text is inside a
    preserve context iff some open element is pre/textarea/raw-text."""
    stack = []
    out = []
    for (t, n, d) in tokens:
        if t == "StartTag":
            stack.append(n)
            out.append((t, n, d))
        elif t == "EndTag":
            if stack:
                stack.pop()
            out.append((t, n, d))
        elif t in ("Characters", "SpaceCharacters"):
            inside = False
            for s in stack:
                if s in PRESERVE:
                    inside = True
            out.append((t, n, d if inside else r8_collapse(d)))
        else:
            out.append((t, n, d))
    return out

def _well_formed(tokens):
    """walker contract: end tags match the innermost open element; SpaceCharacters hold only whitespace"""
    stack = []
    for (t, n, d) in tokens:
        if len(t) < 1:
            return False
        if t == "StartTag":
            if len(n) < 1:
                return False
            stack.append(n)
        elif t == "EndTag":
            if not stack or stack[-1] != n:
                return False
            stack.pop()
        elif t == "SpaceCharacters":
            for ch in d:
                if ch not in SP:
                    return False
    return True

KNOWN_TYPES = ("StartTag", "EndTag", "Characters", "SpaceCharacters")
TYPECLASS = P("types", None)     # e.g. ["StartTag", "*"]: the obligation is split by token-type class; "*" = any other type

def _tc(ts):
    """token i has the type class this worker was given ('*' = any string that is none of the four types the filter looks at)"""
    if TYPECLASS is None:
        return True
    for i, t in enumerate(ts):
        if i >= len(TYPECLASS):
            break
        if TYPECLASS[i] == "*":
            if t in KNOWN_TYPES:
                return False
        elif t != TYPECLASS[i]:
            return False
    return True

def _close(tokens):
    """walker contract by construction: an EndTag carries the name of the innermost open element"""
    stack = []
    out = []
    for (t, n, d) in tokens:
        if t == "StartTag":
            stack.append(n)
        elif t == "EndTag":
            n = stack.pop() if stack else n
        out.append((t, n, d))
    return out

def _run(tokens):
    src = [{"type": t, "name": n, "data": d} for (t, n, d) in tokens]
    out = list(whitespace.Filter(src))
    return [(x["type"], x["name"], x["data"]) for x in out]

# ---------------------------------------------------------------- obligations
def collapse_kernel(t: str) -> bool:
    """
    pre: len(t) <= DMAX + 2
    post: _
    """
    return whitespace.collapse_spaces(t) == r8_collapse(t)

def filter_equals_reference(n: int, t0: str, n0: str, d0: str, t1: str, n1: str, d1: str, t2: str, n2: str, d2: str) -> bool:
    """
    pre: n == NMAX
    pre: _tc([t0, t1, t2][:n])
    pre: len(d0) <= DMAX and len(d1) <= DMAX and len(d2) <= DMAX
    pre: _well_formed(_close([(t0, n0, d0), (t1, n1, d1), (t2, n2, d2)][:n]))
    post: _
    """
    toks = _close([(t0, n0, d0), (t1, n1, d1), (t2, n2, d2)][:n])
    return _run(toks) == r8_filter(toks)

def filter_idempotent(n: int, t0: str, n0: str, d0: str, t1: str, n1: str, d1: str) -> bool:
    """
    pre: n == NMAX
    pre: _tc([t0, t1][:n])
    pre: len(d0) <= DMAX and len(d1) <= DMAX
    pre: _well_formed(_close([(t0, n0, d0), (t1, n1, d1)][:n]))
    post: _
    """
    toks = _close([(t0, n0, d0), (t1, n1, d1)][:n])
    once = _run(toks)
    twice = _run(once)
    return once == twice

def inside_preserve_untouched(depth: int, name: str, t: str, d: str, closers: int) -> bool:
    """
    pre: 1 <= depth <= 3 and 0 <= closers <= depth
    pre: name in PRESERVE
    pre: len(t) >= 1 and len(d) <= DMAX + 1
    post: _
    """
    # induction step for deep nesting: `depth` open elements (outermost is a preserve element), then an arbitrary
    # non-tag token, then `closers` end tags, then a text token
    toks = [("StartTag", name, "")] + [("StartTag", "b", "")] * (depth - 1)
    if t not in ("StartTag", "EndTag"):
        toks.append((t, "x", d))
    toks += [("EndTag", "b", "")] * min(closers, depth - 1)
    if closers == depth:
        toks.append(("EndTag", name, ""))
    toks.append(("Characters", "", d))
    return _run(toks) == r8_filter(toks)
