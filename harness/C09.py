"""C09 — sanitizer output contains only allow-listed markup, URLs and CSS.

Units (real code from /repo): sanitizer.Filter.sanitize_token / allowed_token / disallowed_token / sanitize_css /
__iter__, data_content_type; urllib.parse.urlparse with its lru_cache unwrapped (a cache hashes the URL).
Reference R6: how a browser finds the scheme of a URL (WHATWG URL: strip leading/trailing C0 control or space, remove
TAB / LF / CR, then ASCII-alpha (alnum|+|-|.)* ':' ), and the CSS allow predicate.
"""
import warnings
warnings.simplefilter("ignore")
import urllib.parse as _up
if hasattr(_up.urlsplit, "__wrapped__"):
    _up.urlsplit = _up.urlsplit.__wrapped__           # same function without functools.lru_cache
from typing import Optional
from harness.common import P
from harness.parsecommon import pick, untraced
from html5lib.filters import sanitizer
from html5lib.constants import namespaces
from engine import findings

HTML = namespaces["html"]
F = sanitizer.Filter([])

# ---------------------------------------------------------------- element gate
TYPES = ["StartTag", "EndTag", "EmptyTag", "Comment", "Characters", "SpaceCharacters", "Doctype", "Entity"]
ALLOWED_LIST = sorted(sanitizer.allowed_elements)
NAL = len(ALLOWED_LIST)

NSL = [None, HTML, namespaces["svg"], namespaces["mathml"], "urn:other", ""]
ALLNAMES = sorted(set(n for _, n in sanitizer.allowed_elements)) + ["zz", "script", "iframe", "x-y", "SVG", "a:b", "style", "base", "object", "embed", "meta", "link", "plaintext", "xmp", "noscript", "template"]
NALLN = len(ALLNAMES)
def element_gate_unknown(nsi: int, ni: int, ti: int, hasattr_: bool) -> bool:
    """
    pre: 0 <= ti < 3 and 0 <= ni < NALLN and 0 <= nsi < len(NSL)
    pre: P("ns", None) is None or nsi == P("ns", None)
    post: _
    """
    # every name that occurs in ANY allow-list entry (so that every cross-namespace confusion is tried) + 16 names that
    # must never pass, in each of 6 namespaces: a surviving tag is allow-listed, everything else is inert text
    ns = NSL[pick(len(NSL), nsi)]
    name = ALLNAMES[pick(NALLN, ni)]
    typ = TYPES[pick(3, ti)]
    hasattr_ = bool(hasattr_)
    with untraced():
        tok = {"type": typ, "name": name, "namespace": ns, "data": ({(None, "title"): "v"} if hasattr_ and typ != "EndTag" else {})}
        out = F.sanitize_token(tok)
        if out is None:
            return False
        if out["type"] == "Characters":
            return isinstance(out["data"], str) and "name" not in out
        key = (out["namespace"] if out["namespace"] is not None else HTML, out["name"])
        return out["type"] == typ and key in sanitizer.allowed_elements

def element_gate_listed(ei: int, ti: int, ns_none: bool) -> bool:
    """
    pre: 0 <= ei < NAL and 0 <= ti < len(TYPES)
    post: _
    """
    ns, name = ALLOWED_LIST[pick(NAL, ei)]
    typ = TYPES[pick(len(TYPES), ti)]
    with untraced():
        if ns_none and ns == HTML:
            ns = None
        tok = {"type": typ, "name": name, "namespace": ns, "data": {} if typ in ("StartTag", "EndTag", "EmptyTag") else "d"}
        out = F.sanitize_token(dict(tok))
        if typ == "Comment":
            return out is None                      # comments are dropped
        if typ not in ("StartTag", "EndTag", "EmptyTag"):
            return out == tok                       # everything else passes unchanged
        return out is not None and out["type"] == typ and out["name"] == name     # allow-listed elements stay tags

# ---------------------------------------------------------------- attribute gate
URI_ATTRS = sorted(sanitizer.attr_val_is_uri, key=repr)
ATTR_ALPHA = [(None, "title"), (None, "class"), (None, "id"), (None, "onclick"), (None, "zz"), ("urn:x", "href"), (namespaces["xlink"], "href"), (None, "style"), (None, "href"), (None, "src")] + \
    [a for a in URI_ATTRS if a not in ((None, "href"), (None, "src"), (namespaces["xlink"], "href"))]
NAT = len(ATTR_ALPHA)

def attribute_gate(a0: int, a1: int, a2: int, n: int, custom: bool) -> bool:
    """
    pre: 0 <= n <= 3 and 0 <= a0 < NAT and 0 <= a1 < NAT and 0 <= a2 < NAT and a0 != a1 and a1 != a2 and a0 != a2
    pre: P("a0", None) is None or a0 == P("a0", None)
    post: _
    """
    idx = [pick(NAT, a) for a in (a0, a1, a2)][:pick(4, n)]
    with untraced():
        allowed = sanitizer.allowed_attributes
        if custom:
            allowed = frozenset([(None, "title"), (None, "zz")])       # a custom allow-list
        f = sanitizer.Filter([], allowed_attributes=allowed)
        tok = {"type": "StartTag", "name": "a", "namespace": HTML, "data": dict((ATTR_ALPHA[i], "v%d" % i) for i in idx)}
        out = f.sanitize_token(tok)
        if out is None or out["type"] != "StartTag":
            return False
        for k in out["data"]:
            if k not in allowed:
                return False                         # only allow-listed attributes survive
        for i in idx:
            k = ATTR_ALPHA[i]
            if k in allowed and k != (None, "style") and k not in out["data"]:
                return False                         # harmless allowed attributes (value 'v..' has no scheme) are kept
        return True

# ---------------------------------------------------------------- URI gate
def r6_scheme(v):
    """scheme a browser's URL parser sees, or None"""
    i, j = 0, len(v)
    while i < j and v[i] <= " ":
        i += 1
    while j > i and v[j - 1] <= " ":
        j -= 1
    s = ""
    for ch in v[i:j]:
        if ch != "\t" and ch != "\n" and ch != "\r":
            s += ch
    if s == "":
        return None
    c = s[0]
    if not (("a" <= c <= "z") or ("A" <= c <= "Z")):
        return None
    out = ""
    for ch in s:
        if ch == ":":
            return out
        if ("a" <= ch <= "z"):
            out += ch
        elif ("A" <= ch <= "Z"):
            out += chr(ord(ch) + 32)
        elif ("0" <= ch <= "9") or ch == "+" or ch == "-" or ch == ".":
            out += ch
        else:
            return None
    return None

PROTOCOLS = frozenset(["a", "ab"])
UATTR = P("uattr", 0)

UALPHA = ["a", "b", "c", ":", "\t", " ", "\x00", "/", "&", "J", "1", "\ufffd", "\n", "+", "\u00a0", "#"]
NUA = len(UALPHA)
def uri_gate(n: int, i0: int, i1: int, i2: int, i3: int) -> bool:
    """
    pre: 0 <= n <= P("len", 3) and 0 <= i0 < NUA and 0 <= i1 < NUA and 0 <= i2 < NUA and 0 <= i3 < NUA
    pre: (n >= 4 or i3 == 0) and (n >= 3 or i2 == 0) and (n >= 2 or i1 == 0) and (n >= 1 or i0 == 0)
    post: _
    """
    v = "".join(UALPHA[pick(NUA, i)] for i in (i0, i1, i2, i3)[:pick(5, n)])
    with untraced():
        return _uri_gate_body(v)

def _uri_gate_body(v):
    key = URI_ATTRS[UATTR]
    f = sanitizer.Filter([], allowed_protocols=PROTOCOLS)
    tok = {"type": "StartTag", "name": "a", "namespace": HTML, "data": {key: v}}
    out = f.sanitize_token(tok)
    if out is None or out["type"] != "StartTag":
        return False
    if key in out["data"]:
        if out["data"][key] != v and key not in sanitizer.svg_attr_val_allows_ref:
            return False
        sch = r6_scheme(v)
        if sch is not None and sch not in ("a", "ab"):
            return False                             # a browser would resolve a scheme outside the allowed protocols
    return True

SCHEMES = ["javascript:", "data:", "vbscript:", "JaVaScRiPt:", "java\tscript:", " javascript:", "data:text/html,", "data:image/png,", "data:image/svg+xml;base64,", "http:", "feed:javascript:"]
def uri_gate_default(si: int, pos: int, hn: int, h0: int, h1: int, tail: int) -> bool:
    """
    pre: 0 <= si < len(SCHEMES) and 0 <= pos <= 26 and 0 <= hn <= P("hole", 1) and 0 <= h0 < NUA and 0 <= h1 < NUA and 0 <= tail <= 1
    pre: (hn >= 2 or h1 == 0) and (hn >= 1 or h0 == 0)
    pre: P("scheme", None) is None or si == P("scheme", None)
    post: _
    """
    base = SCHEMES[pick(len(SCHEMES), si)]
    p = pick(27, pos)
    hole = "".join(UALPHA[pick(NUA, h)] for h in (h0, h1)[:pick(3, hn)])
    tail = pick(2, tail)
    with untraced():
        if p > len(base):
            return True
        v = base[:p] + hole + base[p:] + ("alert(1)" if tail else "")
        return _uri_default_body(v)

def _uri_default_body(v):
    key = (None, "href")
    tok = {"type": "StartTag", "name": "a", "namespace": HTML, "data": {key: v}}
    out = F.sanitize_token(tok)
    if out is None or out["type"] != "StartTag":
        return False
    if key in out["data"]:
        sch = r6_scheme(v)
        if sch is not None and sch not in sanitizer.allowed_protocols:
            return False
        if sch == "data":
            # only the allowed content types (of the URL as a browser normalises it: TAB / LF / CR removed)
            nv = "".join(ch for ch in v if ch not in "\t\n\r")
            rest = nv[nv.index(":") + 1:] if ":" in nv else ""
            ctype = ""
            for ch in rest:
                if ch in ",;":
                    break
                ctype += ch
            ctype = ctype.strip(" \t\n\r\x0c").lower()
            TOK = "!#$%&'*+-.^_`|~0123456789abcdefghijklmnopqrstuvwxyz"
            parts = ctype.split("/")
            if len(parts) != 2 or not parts[0] or not parts[1] or any(ch not in TOK for ch in parts[0] + parts[1]):
                ctype = "text/plain"        # WHATWG fetch: a data: URL whose MIME type does not parse is text/plain;charset=US-ASCII
            if ctype not in sanitizer.allowed_content_types:
                return False
    return True

# ---------------------------------------------------------------- CSS gate
CSS_ALPHA = ["u", "r", "l", "(", ")", " ", "a", ":", ";", "-", "1", "#", "'", "U", "R", "L", "/", "\\"]
NCS = len(CSS_ALPHA)
KF_URL = findings.active("C09-css-url-with-space-or-case")

def _has_url(s):
    low = s.lower()
    i = low.find("url")
    while i >= 0:
        j = i + 3
        while j < len(low) and low[j] in " \t\n\r\x0c":
            j += 1
        if j < len(low) and low[j] == "(":
            return True
        i = low.find("url", i + 1)
    return False

def css_gate(n: int, i0: int, i1: int, i2: int, i3: int, i4: int, head: int) -> bool:
    """
    pre: 0 <= n <= P("clen", 4) and 0 <= i0 < NCS and 0 <= i1 < NCS and 0 <= i2 < NCS and 0 <= i3 < NCS and 0 <= i4 < NCS and 0 <= head <= 3
    pre: (n >= 5 or i4 == 0) and (n >= 4 or i3 == 0) and (n >= 3 or i2 == 0) and (n >= 2 or i1 == 0) and (n >= 1 or i0 == 0)
    pre: P("first", None) is None or i0 == P("first", None)
    post: _
    """
    body = "".join(CSS_ALPHA[pick(NCS, i)] for i in (i0, i1, i2, i3, i4)[:pick(6, n)])
    style = ("", "color: ", "fill: url", "zz: 1; background: ")[pick(4, head)] + body
    with untraced():
        out = F.sanitize_css(style)
        if _has_url(out):
            return False                             # never url()
        # every kept declaration has an allowed property (or the background/border/margin/padding family with allowed keywords)
        for decl in out.split(";"):
            decl = decl.strip()
            if not decl:
                continue
            if ":" not in decl:
                return False
            prop = decl.split(":")[0].strip().lower()
            fam = prop.split("-")[0]
            if prop not in sanitizer.allowed_css_properties and prop not in sanitizer.allowed_svg_properties and fam not in ("background", "border", "margin", "padding"):
                return False
        return True


BADURLS = ["javascript:1", "vbscript:2", "data:text/html,3", " JaVaScRiPt:4", "v"]
def uri_gate_multi(n: int, a0: int, a1: int, a2: int, u0: int, u1: int, u2: int) -> bool:
    """
    pre: 1 <= n <= P("nmulti", 3) and 0 <= a0 < len(URI_ATTRS) and 0 <= a1 < len(URI_ATTRS) and 0 <= a2 < len(URI_ATTRS) and a0 != a1 and a1 != a2 and a0 != a2
    pre: 0 <= u0 < len(BADURLS) and 0 <= u1 < len(BADURLS) and 0 <= u2 < len(BADURLS)
    pre: (n >= 3 or (a2 == (2 if a0 != 2 and a1 != 2 else (3 if a0 != 3 and a1 != 3 else 4)) and u2 == 0)) and (n >= 2 or (a1 == (0 if a0 != 0 else 1) and u1 == 0))
    pre: P("a0", None) is None or a0 == P("a0", None)
    post: _
    """
    keys = [URI_ATTRS[pick(len(URI_ATTRS), a)] for a in (a0, a1, a2)][:pick(4, n)]
    vals = [BADURLS[pick(len(BADURLS), u)] for u in (u0, u1, u2)][:len(keys)]
    with untraced():
        tok = {"type": "StartTag", "name": "a", "namespace": HTML, "data": dict(zip(keys, vals))}
        out = F.sanitize_token(tok)
        if out is None or out["type"] != "StartTag":
            return False
        for k, v in zip(keys, vals):
            if v != "v" and k in out["data"]:
                return False                 # every URI attribute with a forbidden scheme is removed, however many there are
            if v == "v" and k in sanitizer.allowed_attributes and k not in out["data"]:
                return False
        return True


def uri_gate_custom(si: int, pos: int, hn: int, h0: int, tail: int, ai: int) -> bool:
    """
    pre: 0 <= si < len(SCHEMES) and 0 <= pos <= 26 and 0 <= hn <= 1 and 0 <= h0 < NUA and 0 <= tail <= 1 and 0 <= ai < P("nattrs", len(URI_ATTRS))
    pre: hn >= 1 or h0 == 0
    pre: P("scheme", None) is None or si == P("scheme", None)
    post: _
    """
    # a CUSTOM protocol allow-list (only http): every other scheme - data: included, whatever its content type - is removed
    base = SCHEMES[pick(len(SCHEMES), si)]
    p = pick(27, pos)
    hole = UALPHA[pick(NUA, h0)] if pick(2, hn) else ""
    tail = pick(2, tail)
    key = URI_ATTRS[pick(len(URI_ATTRS), ai)]
    with untraced():
        if p > len(base):
            return True
        v = base[:p] + hole + base[p:] + ("alert(1)" if tail else "")
        f = sanitizer.Filter([], allowed_protocols=frozenset(["http"]))
        out = f.sanitize_token({"type": "StartTag", "name": "a", "namespace": HTML, "data": {key: v}})
        if out is None or out["type"] != "StartTag":
            return False
        if key in out["data"]:
            sch = r6_scheme(v)
            if sch is not None and sch != "http":
                return False
        return True
