"""C02 — tokenizer output equals the WHATWG tokenization of every input.

Unit executed symbolically: the REAL HTMLTokenizer state methods (and emitCurrentToken, consumeEntity, the real
pre-loaded HTMLUnicodeInputStream) from a pre-state reached by a concrete catalogue prefix, continued on a SYMBOLIC
string of <= K arbitrary Unicode characters followed by end of input; compared with the independent reference R1
(refs/r1_tokenizer.py, the standard's state machine) run on prefix + symbolic string.

The catalogue is rebuilt from the live tokenizer at check time: for every state method of HTMLTokenizer (taken from
the class, so a new or renamed state shows up) the shortest candidate prefixes after which the tokenizer RESTS in that
state (all prefix characters consumed, no end-of-input observed yet).
"""
import sys
sys.modules.setdefault("_bisect", None)
from collections import deque
from html5lib._tokenizer import HTMLTokenizer
from html5lib.constants import tokenTypes, namespaces
from harness.common import P
from harness.tokcommon import mk_tokenizer, remaining
from refs import r1_tokenizer as R1
from engine import findings

import html5lib._tokenizer as _TK

class LinDict:
    """dict semantics for the three operations emitCurrentToken uses (construct from pairs, update, len) and items(),
    by linear scan with == instead of hashing (a symbolic attribute name that is hashed gets realised).
    Equivalence with dict on these operations is self-tested in _selftest_lindict()."""
    def __init__(self, pairs=()):
        self._k = []
        self._v = []
        self.update(pairs)
    def update(self, pairs):
        for k, v in pairs:
            for i in range(len(self._k)):
                if self._k[i] == k:
                    self._v[i] = v
                    break
            else:
                self._k.append(k)
                self._v.append(v)
    def __len__(self):
        return len(self._k)
    def items(self):
        return list(zip(self._k, self._v))
    def __bool__(self):
        return len(self._k) > 0

def _selftest_lindict():
    import random
    r = random.Random(5)
    for _ in range(300):
        raw = [[r.choice("abc"), r.choice("xyz")] for _ in range(r.randint(0, 5))]
        d = dict(raw); l = LinDict(raw)
        if len(raw) > len(d):
            d.update(raw[::-1]); l.update(raw[::-1])
        assert list(d.items()) == l.items() and len(d) == len(l), raw
_selftest_lindict()
_TK.attributeMap = LinDict

T = tokenTypes
CONFIGS = [  # (initial state method, R1 initial, last start tag, CDATA allowed)
    ("dataState", "data", None, False),
    ("dataState", "data", None, True),
    ("rcdataState", "rcdata", "title", False),
    ("rawtextState", "rawtext", "xmp", False),
    ("scriptDataState", "script_data", "script", False),
    ("plaintextState", "plaintext", None, False),
    ("rcdataState", "rcdata", "\u212a", False),     # a last start tag that str.lower() (but not ASCII lower-casing) maps to 'k' (U+212A KELVIN SIGN)
]

class _Node:
    def __init__(self, ns):
        self.namespace = ns
class _Tree:
    def __init__(self, foreign):
        self.openElements = [_Node(namespaces["html"]), _Node(namespaces["svg"] if foreign else namespaces["html"])]
        self.defaultNamespace = namespaces["html"]
class StubParser:
    """what the tokenizer reads from the parser: tree.openElements[-1].namespace (CDATA sections allowed?)"""
    def __init__(self, foreign):
        self.tree = _Tree(foreign)

def state_methods():
    names = [n for n in dir(HTMLTokenizer) if n.endswith("State")]
    names += [n for n in ("characterReferenceInRcdata",) if hasattr(HTMLTokenizer, n)]
    return sorted(names)

BASES = [
    "x<a b=c d='e' f=\"g\" h/>", "<A Bc=De/>", "<a b b=c>", "<a  b = c>", "<a b=>", "<a b=\"c\"d>", "<a b c>", "<a/ b>", "<a b=c/ >", "</a b=c>", "</a/>", "</ >", "</>", "<>", "<?x>", "<a b=&amp;c>",
    "<a b=\"&lt;\" c='&gt'>", "&amp;", "&#x41;", "x&y", "<!--a-->", "<!-- a -- b --!> c", "<!--->", "<!-->", "<!--a-", "<!--a--", "<!--a--!", "<!--<!--a-->", "<!-x", "<!a>", "</!a>",
    "<!DOCTYPE html>", "<!doctype  a PUBLIC \"b\" \"c\">", "<!DOCTYPE a PUBLIC 'b' 'c' >", "<!DOCTYPE a SYSTEM \"c\" x>", "<!DOCTYPE a SYSTEM 'c'>", "<!DOCTYPE a public\"b\"'c'>", "<!DOCTYPE a system'c'>",
    "<!DOCTYPE a x>", "<!DOCTYPE>", "<!DOCTYPE  >", "<!DOCTYPE a PUBLIC>", "<!DOCTYPE a PUBLIC \"b\">", "<!DOCTYPE a PUBLIC \"b\" >", "<!DOCTYPEa>", "<!DOCTYPE a PUBLIC x", "<!DOCTYPE a SYSTEM x",
    "<![CDATA[a]]>b", "<![CDATA[a]b]]", "<![CDATA[]]]>", "a</title>", "a</titl x", "a</title x>", "a</TITLE/>", "</title >", "<b>&amp;</b>", "</xmp>", "</xm", "</script>", "</scrip x", "</script ",
    "</k>", "a</k x", "<!--a", "<!---", "<!-- <script>a</script> -->b", "<!--<script>a</script></script>", "<!-- --", "<!-- -", "<!--x<script", "<!--x<script ", "<!--x<script x-", "<!--x<script x--", "<!--x<script x<",
    "<!--x<script x</", "<!--x<script x</script", "<!--x</", "<!--x</s", "<!--x<", "<!--x<s", "<!", "<!-", "</", "<", "<a", "<a ", "<a b", "<a b ", "<a b=", "<a b='", "<a b=\"", "<a b=c", "<a b='c'", "<a /",
]
BASE_CFG = {  # which configurations a base string is tried in (default: data, both CDATA settings)
}

def _impl_setup(cfg, text, parser_foreign=None):
    init, _, last, cdata = cfg
    h = mk_tokenizer(text, parser=StubParser(cdata))
    h.state = getattr(h, init)
    if last is not None:
        h.currentToken = {"type": "startTag", "name": last}
    return h

def _drain(h, out):
    while h.tokenQueue:
        t = h.tokenQueue.popleft()
        ty = t["type"]
        if ty == T["ParseError"]:
            continue
        if ty == T["Characters"] or ty == T["SpaceCharacters"]:
            out.append(("Character", t["data"]))
        elif ty == T["StartTag"]:
            out.append(("StartTag", t["name"], [[k, v] for k, v in t["data"].items()], bool(t["selfClosing"])))
        elif ty == T["EndTag"]:
            out.append(("EndTag", t["name"]))
        elif ty == T["Comment"]:
            out.append(("Comment", t["data"]))
        elif ty == T["Doctype"]:
            out.append(("Doctype", t["name"] if t["name"] != "" else None, t["publicId"], t["systemId"], not t["correct"]))
        else:
            out.append(("UNKNOWN", ty))

VISITED = set()

class _EOFSeen(Exception):
    pass

def run_prefix(cfg, prefix, detect_eof=False):
    """run the real tokenizer over the concrete prefix; stop as soon as every prefix character is consumed"""
    h = _impl_setup(cfg, prefix)
    out = []
    if detect_eof:
        orig = h.stream.char
        def char():
            c = orig()
            if c is None:
                raise _EOFSeen()
            return c
        h.stream.char = char
    guard = 0
    while remaining(h) != "":
        VISITED.add(h.state.__name__)
        h.state()
        _drain(h, out)
        guard += 1
        if guard > 10 * len(prefix) + 20:
            raise RuntimeError("tokenizer does not make progress on %r" % prefix)
    if detect_eof:
        del h.stream.char
    return h, out

_cat = None
def catalogue(per_state=3):
    """{(cfg index, state method name): [prefix, ...]} from the live tokenizer"""
    global _cat
    if _cat is not None:
        return _cat
    cands = set([""])
    for b in BASES:
        for i in range(1, len(b) + 1):
            cands.add(b[:i])
    cands = sorted(cands, key=lambda x: (len(x), x))
    cat = {}
    for ci, cfg in enumerate(CONFIGS):
        for p in cands:
            try:
                h, _ = run_prefix(cfg, p, detect_eof=True)
            except _EOFSeen:
                continue
            key = (ci, h.state.__name__)
            lst = cat.setdefault(key, [])
            if len(lst) < per_state:
                lst.append(p)
    _cat = cat
    return cat

def uncovered_states():
    cat = catalogue()
    seen = set(k[1] for k in cat)
    # a state that never RESTS (it always has its first character available: bogusCommentState) counts as covered
    # when some catalogue run passes through it; the symbolic continuation after its predecessor exercises it
    return [m for m in state_methods() if m not in seen and m not in VISITED]

def _warm():
    """fill the process-wide charsUntil regex cache before symbolic execution starts (a cache filled on one path and hit
    on the next makes CrossHair's replay of path decisions non-deterministic)"""
    for cfg in CONFIGS:
        for b in BASES:
            h = _impl_setup(cfg, b)
            n = 0
            while h.state() and n < 200:
                n += 1
_warm()

# ---------------------------------------------------------------- the obligation
K = P("k", 2)
CFG = CONFIGS[P("cfg", 0)]
PREFIX = P("prefix", "")
KF_CDATA_NUL = findings.active("C02-cdata-nul-in-tokenizer")

def _norm_nul(tokens):
    return [("Character", t[1].replace("\x00", "�")) if t[0] == "Character" else t for t in tokens]

def impl_tokens(s):
    h, out = run_prefix(CFG, PREFIX)
    st = h.stream
    st.chunk = s
    st.chunkSize = len(s)
    st.chunkOffset = 0
    guard = 0
    while h.state():
        _drain(h, out)
        guard += 1
        if guard > 40:
            raise RuntimeError("tokenizer does not terminate")
    _drain(h, out)
    out.append(("EOF",))
    return R1.merge_chars(out)

def step(s: str) -> bool:
    """
    pre: len(s) <= K
    pre: all(ch != chr(13) for ch in s)
    post: _
    """
    got = impl_tokens(s)
    want = R1.tokenize(PREFIX + s, CFG[1], CFG[2], CFG[3])
    if KF_CDATA_NUL and CFG[3]:
        got, want = _norm_nul(got), _norm_nul(want)
    return got == want

def all_states_covered():
    """concrete lemma (not a solver result): every state method of the live class is reached by the catalogue"""
    unc = uncovered_states()
    n = len(state_methods())
    if unc:
        return {"status": "sat", "model": {"state": unc[0]}, "detail": "no catalogue prefix reaches %s" % unc, "queries": n}
    return {"status": "unsat", "queries": n, "witness_ok": True, "witness_args": {"state": "dataState"}}

def replay_state_covered(state, **_):
    return state not in uncovered_states()

# known-finding signature: difference only inside a CDATA section with NUL
def sig_cdata_nul(s, **_):
    if not CFG[3] or "\x00" not in (PREFIX + s):
        return False
    got = impl_tokens(s)
    want = R1.tokenize(PREFIX + s, CFG[1], CFG[2], CFG[3])
    return got != want and _norm_nul(got) == _norm_nul(want)
