"""Shared construction of tokenizer pre-states: the REAL HTMLTokenizer on the REAL HTMLUnicodeInputStream,
pre-loaded (chunk / chunkSize / chunkOffset set directly, empty underlying source) so that no StringIO / C
boundary realises the symbolic characters.  C05 decides that the stream delivers exactly such chunks."""
from collections import deque
from html5lib._tokenizer import HTMLTokenizer
from html5lib.constants import tokenTypes

class Empty:
    def read(self, n=-1):
        return ""

def mk_tokenizer(chunk, parser=None):
    t = HTMLTokenizer(Empty(), parser=parser)
    s = t.stream
    s.reportCharacterErrors = None      # invalid-code-point reporting is decided separately (C05/C16, direct z3 on the live regex)
    s._position = lambda offset: (0, 0)   # line/column bookkeeping (str.count/rfind realise a symbolic chunk); positions are decided in C05
    s.chunk = chunk
    s.chunkSize = len(chunk)
    s.chunkOffset = 0
    t.tokenQueue = deque([])
    return t

def remaining(t):
    s = t.stream
    return s.chunk[s.chunkOffset:]

def consumed(t, chunk):
    s = t.stream
    return len(chunk) - (s.chunkSize - s.chunkOffset)

CHARS = (tokenTypes["Characters"], tokenTypes["SpaceCharacters"])
PARSE_ERROR = tokenTypes["ParseError"]
