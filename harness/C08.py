"""C08 — serializer output is lexically faithful or an error is reported.

Unit (real code from /repo): HTMLSerializer.serialize on token streams built in the harness, with SYMBOLIC text /
attribute values (all Unicode), element names and attribute keys by symbolic index, and ALL serializer options symbolic.
Oracle: the output is re-tokenised by the independent reference tokenizer R1 (+R10 for character references) in the
state an HTML parser would be in at that point (namespace- and scripting-aware), and must give back exactly the tokens.
"""
from harness.common import P
from harness.parsecommon import pick, untraced
from html5lib import serializer, constants
from html5lib.constants import namespaces
from refs import r1_tokenizer as R1
from engine import findings

HTML = namespaces["html"]
SVG = namespaces["svg"]
XLINK = namespaces["xlink"]
LMAX = P("len", 2)

def _opts(qmode, qchar, b):
    """b: list of 9 booleans -> keyword options (optional-tag omission off: C07/C13; sanitize off: C09/C10)"""
    return dict(quote_attr_values=("legacy", "spec", "always")[qmode], quote_char=("\"", "'")[qchar] if b[8] else "\"",
                minimize_boolean_attributes=b[0], use_trailing_solidus=b[1], space_before_trailing_solidus=b[2],
                escape_lt_in_attrs=b[3], escape_rcdata=b[4], resolve_entities=b[5], alphabetical_attributes=b[6],
                strip_whitespace=False, omit_optional_tags=False, inject_meta_charset=b[7], sanitize=False) if b[8] else \
        dict(quote_attr_values=("legacy", "spec", "always")[qmode],
             minimize_boolean_attributes=b[0], use_trailing_solidus=b[1], space_before_trailing_solidus=b[2],
             escape_lt_in_attrs=b[3], escape_rcdata=b[4], resolve_entities=b[5], alphabetical_attributes=b[6],
             strip_whitespace=False, omit_optional_tags=False, inject_meta_charset=b[7], sanitize=False)

def _ser(tokens, opts):
    s = serializer.HTMLSerializer(**opts)
    out = "".join(s.serialize(tokens))
    return out, s.errors

def _preprocess(text):
    """input stream preprocessing of a parser reading the output: CR LF and CR become LF"""
    out = ""
    i = 0
    while i < len(text):
        c = text[i]
        if c == chr(13):
            out += chr(10)
            if i + 1 < len(text) and text[i + 1] == chr(10):
                i += 1
        else:
            out += c
        i += 1
    return out

def _no_nul(t):
    return chr(0) not in t      # parsed trees never hold U+0000 in text or values (the parser drops / replaces it)

KF_CR = findings.active("C08-cr-written-raw")
def sig_cr(t="", v0="", v1="", **_):
    return (chr(13) in t) or (chr(13) in v0) or (chr(13) in v1)
KF_ESC_RAW = findings.active("C08-escape-rcdata-in-rawtext")
def sig_esc_raw(ei, b4, scripting, **_):
    name, ns = ELEMS[ei]
    return bool(b4) and parser_text_state(name, ns, bool(scripting)) in ("rawtext", "script_data", "plaintext")

def _start(name, ns, attrs=None, typ="StartTag"):
    return {"type": typ, "name": name, "namespace": ns, "data": attrs or {}}

def _end(name, ns):
    return {"type": "EndTag", "name": name, "namespace": ns}

# ---------------------------------------------------------------- (a)+(b) text
ELEMS = [("p", HTML), ("title", HTML), ("textarea", HTML), ("style", HTML), ("script", HTML), ("xmp", HTML), ("iframe", HTML), ("noembed", HTML), ("noframes", HTML),
         ("noscript", HTML), ("plaintext", HTML), ("style", SVG), ("title", SVG), ("script", SVG), ("zz", HTML), ("pre", HTML)]
NE = len(ELEMS)
ELEM = P("elem", None)

def parser_text_state(name, ns, scripting):
    """the tokenizer state an HTML parser switches to after this start tag (standard, 13.2.6.4.4 / 13.2.6.4.7)"""
    if ns != HTML:
        return "data"
    if name in ("title", "textarea"):
        return "rcdata"
    if name in ("style", "xmp", "iframe", "noembed", "noframes"):
        return "rawtext"
    if name == "script":
        return "script_data"
    if name == "noscript":
        return "rawtext" if scripting else "data"
    if name == "plaintext":
        return "plaintext"
    return "data"

KF_FOREIGN_RAW = findings.active("C08-raw-text-by-bare-name")

def sig_raw_by_name(ei, scripting=False, **_):
    """text inside an element that the serializer treats as raw text by its bare name although a parser does not:
    foreign <style>/<script>, and <noscript> when scripting is off"""
    name, ns = ELEMS[ei]
    return name in constants.rcdataElements and (ns != HTML or (name == "noscript" and not scripting))

KF_PLAINTEXT = findings.active("C08-plaintext-end-tag")
def sig_plaintext(ei, **_):
    return ELEMS[ei] == ("plaintext", HTML)

def text_in_element(ei: int, t: str, typ: int, scripting: bool, qmode: int, b0: bool, b1: bool, b2: bool, b3: bool, b4: bool, b5: bool, b6: bool, b7: bool) -> bool:
    """
    pre: 0 <= ei < NE and (ELEM is None or ei == ELEM) and 0 <= typ <= 1 and qmode == 0
    pre: not b0 and not b1 and not b2 and not b3 and not b6 and not b7      # options that only concern tags / attributes / encoding
    pre: len(t) <= LMAX and _no_nul(t)
    pre: typ == 0 or all(ch in " \\t\\n\\x0c\\r" for ch in t)
    pre: not (KF_CR and sig_cr(t=t))
    pre: not (KF_ESC_RAW and sig_esc_raw(ei, b4, scripting))
    pre: not (KF_FOREIGN_RAW and sig_raw_by_name(ei, scripting))
    pre: not (KF_PLAINTEXT and sig_plaintext(ei))
    post: _
    """
    name, ns = ELEMS[pick(NE, ei)]
    opts = _opts(pick(3, qmode), 0, [b0, b1, b2, b3, b4, b5, b6, b7, False])
    toks = [_start(name, ns), {"type": ("Characters", "SpaceCharacters")[pick(2, typ)], "data": t}, _end(name, ns)]
    out, errors = _ser(toks, opts)
    if errors:
        return True                      # a serialization error was reported
    head = "<%s>" % name
    if not out.startswith(head):
        return False
    body = _preprocess(out[len(head):])
    state = parser_text_state(name, ns, bool(scripting))
    got = R1.tokenize(body, state, name if state != "data" else None, ns != HTML)
    want = ([("Character", t)] if t != "" else []) + [("EndTag", name), ("EOF",)]
    return got == want

# ---------------------------------------------------------------- (c) attributes
AKEYS = [(None, "href"), (None, "ismap"), (None, "irrelevant"), (XLINK, "href"), (None, "a-b"), (None, "disabled")]
NA = len(AKEYS)
TAGS = [("a", HTML, "StartTag"), ("img", HTML, "EmptyTag"), ("br", HTML, "EmptyTag"), ("image", SVG, "StartTag")]
def _is_bool(tag, key):
    return key[1] in constants.booleanAttributes.get(tag, ()) or key[1] in constants.booleanAttributes.get("", ())
KF_BOOL = findings.active("C08-boolean-attribute-value-dropped")
KF_NSATTR = findings.active("C08-attribute-namespace-prefix-dropped")
KF_SOLIDUS = findings.active("C08-unquoted-value-before-trailing-solidus")

def _is_bool(tag, key):
    return key[1] in constants.booleanAttributes.get(tag, ()) or key[1] in constants.booleanAttributes.get("", ())

def _boolkey(ti, k):
    # written with plain comparisons (no symbolic indexing): AKEYS[2] 'irrelevant' is boolean everywhere, AKEYS[1] 'ismap' for img
    return k == 2 or (k == 1 and ti == 1)
assert all(_is_bool(TAGS[ti][0], AKEYS[k]) == _boolkey(ti, k) for ti in range(len(TAGS)) for k in range(NA))

def sig_bool(ti, k0, k1, n, b0, **_):
    return b0 and ((n >= 1 and _boolkey(ti, k0)) or (n >= 2 and _boolkey(ti, k1)))

assert [i for i, k in enumerate(AKEYS) if k[0] is not None] == [3]
def sig_nsattr(k0, k1, n, **_):
    return (n >= 1 and k0 == 3) or (n >= 2 and k1 == 3)

assert [i for i, t in enumerate(TAGS) if t[2] == "EmptyTag"] == [1, 2]
def sig_solidus(ti, b1, b2, **_):
    return (ti == 1 or ti == 2) and b1 and not b2

def attributes(ti: int, n: int, k0: int, k1: int, v0: str, v1: str, qmode: int, qchar: int, b0: bool, b1: bool, b2: bool, b3: bool, b6: bool, b8: bool) -> bool:
    """
    pre: 0 <= ti < len(TAGS) and 0 <= n <= 2 and 0 <= k0 < NA and 0 <= k1 < NA and k0 != k1 and 0 <= qmode <= 2 and 0 <= qchar <= 1
    pre: P("tag", None) is None or ti == P("tag", None)
    pre: P("k0", None) is None or k0 == P("k0", None)
    pre: P("qmode", None) is None or qmode == P("qmode", None)
    pre: n <= P("nattr", 2)
    pre: len(v0) <= LMAX and len(v1) <= LMAX - 1 and _no_nul(v0) and _no_nul(v1)
    pre: not (KF_CR and sig_cr(v0=v0, v1=v1))
    pre: n >= 2 or (k1 == (1 if k0 == 0 else 0) and v1 == "")
    pre: n >= 1 or (k0 == 0 and v0 == "")
    pre: not (KF_BOOL and sig_bool(ti, k0, k1, n, b0))
    pre: not (KF_NSATTR and sig_nsattr(k0, k1, n))
    pre: not (KF_SOLIDUS and sig_solidus(ti, b1, b2))
    post: _
    """
    tag, ns, typ = TAGS[pick(len(TAGS), ti)]
    n = pick(3, n)
    keys = [AKEYS[pick(NA, k)] for k in (k0, k1)][:n]
    vals = [v0, v1][:n]
    from collections import OrderedDict
    data = OrderedDict(zip(keys, vals))
    opts = _opts(pick(3, qmode), pick(2, qchar), [b0, b1, b2, b3, False, True, b6, True, b8])
    out, errors = _ser([_start(tag, ns, data, typ)], opts)
    if errors:
        return True
    got = R1.tokenize(_preprocess(out), "data", None, False)
    exp = list(zip(keys, vals))
    if b6:
        exp = sorted(exp, key=lambda kv: ((kv[0][0] or ""), kv[0][1]))
    # names as a tokenizer reads them back: prefix + local name for the namespaced attributes of the standard's table
    def qname(k):
        if k[0] is None:
            return k[1]
        return constants.unadjustForeignAttributes.get((k[0], k[1]), k[1])
    want_attrs = [[qname(k), v] for k, v in exp]
    selfclosing = typ == "EmptyTag" and bool(b1)
    want = [("StartTag", tag, want_attrs, selfclosing), ("EOF",)]
    return got == want

# ---------------------------------------------------------------- (d) comments, (e) doctype: strings over a class alphabet
# ("%s" % symbolic_text realises it, so these two draw their characters by symbolic index)
CALPHA = ["-", ">", "<", "!", "a", "\"", "'", " ", "&", "\x00"]
NC = len(CALPHA)

def _cstr(n, i0, i1, i2, i3):
    return "".join(CALPHA[pick(NC, i)] for i in (i0, i1, i2, i3)[:pick(5, n)])

def comment(n: int, i0: int, i1: int, i2: int, i3: int) -> bool:
    """
    pre: 0 <= n <= P("clen", 4) and 0 <= i0 < NC and 0 <= i1 < NC and 0 <= i2 < NC and 0 <= i3 < NC
    pre: (n >= 4 or i3 == 0) and (n >= 3 or i2 == 0) and (n >= 2 or i1 == 0) and (n >= 1 or i0 == 0)
    post: _
    """
    raw = _cstr(n, i0, i1, i2, i3)
    with untraced():
        # comment data a parser can produce: what the reference tokenizer makes of '<!--' raw '-->' (first token)
        first = R1.tokenize("<!--" + raw + "-->", "data", None, False)[0]
        if first[0] != "Comment":
            return True
        data = first[1]
        out, errors = _ser([{"type": "Comment", "data": data}], {"omit_optional_tags": False})
        if errors:
            return True
        return R1.tokenize(_preprocess(out), "data", None, False) == [("Comment", data), ("EOF",)]

KF_PUBQ = findings.active("C08-doctype-public-id-quote")
def sig_pubq(n, i0, i1, i2, **_):
    return any(CALPHA[i] == "\"" for i in (i0, i1, i2)[:n])

def doctype(hasp: bool, hass: bool, sq: bool, n: int, i0: int, i1: int, i2: int, m: int, j0: int, j1: int, j2: int) -> bool:
    """
    pre: 0 <= n <= P("idlen", 2) and 0 <= m <= P("idlen", 2) and 0 <= i0 < NC and 0 <= i1 < NC and 0 <= i2 < NC and 0 <= j0 < NC and 0 <= j1 < NC and 0 <= j2 < NC
    pre: (n >= 3 or i2 == 0) and (n >= 2 or i1 == 0) and (n >= 1 or i0 == 0) and (m >= 3 or j2 == 0) and (m >= 2 or j1 == 0) and (m >= 1 or j0 == 0)
    pre: P("variant", None) is None or [hasp, hass, sq] == P("variant", None)
    pre: hasp or n == 0
    pre: hass or m == 0
    pre: not (KF_PUBQ and hasp and sig_pubq(n, i0, i1, i2))
    post: _
    """
    rawp = _cstr(n, i0, i1, i2, 0)
    raws = _cstr(m, j0, j1, j2, 0)
    hasp, hass, sq = bool(hasp), bool(hass), bool(sq)
    with untraced():
        return _doctype_body(hasp, hass, sq, rawp, raws)

def _doctype_body(hasp, hass, sq, rawp, raws):
    q = "'" if sq else "\""
    # identifiers a parser can produce: what the reference tokenizer reads from a doctype written with either quote
    src = "<!DOCTYPE html" + ((" PUBLIC " + q + rawp + q) if hasp else "") + (((" " if hasp else " SYSTEM ") + q + raws + q) if hass else "") + ">"
    first = R1.tokenize(src, "data", None, False)[0]
    if first[0] != "Doctype" or first[4]:
        return True                      # force-quirks doctypes carry no reliable identifiers
    name, pub, sysid = first[1], first[2], first[3]
    out, errors = _ser([{"type": "Doctype", "name": name, "publicId": pub if pub is not None else "", "systemId": sysid if sysid is not None else ""}], {"omit_optional_tags": False})
    if errors:
        return True
    got = R1.tokenize(_preprocess(out), "data", None, False)
    # the walkers report a missing identifier as '' and the serializer omits empty identifiers: '' and missing are identified
    def norm(x):
        return x if x else None
    return len(got) == 2 and got[0][0] == "Doctype" and (got[0][1], norm(got[0][2]), norm(got[0][3]), got[0][4]) == (name, norm(pub), norm(sysid), False)


RFRAG = ["&", "lt", "gt", "amp", ";", "#", "1", "x", "colon", "a", " ", "=", "no", "t", "i"]
def attribute_refs(ti: int, n: int, f0: int, f1: int, f2: int, f3: int, qmode: int, qchar: int, b3: bool, b8: bool) -> bool:
    """
    pre: ti == 0 and 0 <= n <= P("nfrag", 4) and 0 <= f0 < len(RFRAG) and 0 <= f1 < len(RFRAG) and 0 <= f2 < len(RFRAG) and 0 <= f3 < len(RFRAG) and 0 <= qmode <= 2 and 0 <= qchar <= 1
    pre: (n >= 4 or f3 == 0) and (n >= 3 or f2 == 0) and (n >= 2 or f1 == 0) and (n >= 1 or f0 == 0)
    pre: P("f0", None) is None or f0 == P("f0", None)
    post: _
    """
    tag, ns, typ = TAGS[pick(len(TAGS), ti)]
    v = "".join(RFRAG[pick(len(RFRAG), f)] for f in (f0, f1, f2, f3)[:pick(5, n)])
    opts = _opts(pick(3, qmode), pick(2, qchar), [False, False, True, bool(b3), False, True, False, True, bool(b8)])
    with untraced():
        out, errors = _ser([_start(tag, ns, {(None, "title"): v}, typ)], opts)
        if errors:
            return True
        return R1.tokenize(_preprocess(out), "data", None, False) == [("StartTag", tag, [["title", v]], False), ("EOF",)]
